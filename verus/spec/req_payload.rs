// ---- spec/req_payload.rs : the abstract request and the effect of consuming Params payload bytes
pub struct ReqAbs { pub id: u16, pub role: fcgi::Role, pub flags: u8, pub log: Seq<(Seq<u8>, Seq<u8>)> }
// consuming the payload bytes `t` with `carry` pending: complete pairs of carry+t are inserted in order, the rest is carried
pub open spec fn params_payload(req: ReqAbs, carry: Seq<u8>, t: Seq<u8>) -> (ReqAbs, Seq<u8>) {
    (ReqAbs { id: req.id, role: req.role, flags: req.flags, log: req.log + decode_pairs(carry + t) }, decode_rest(carry + t))
}
