// ---- spec/request_abs.rs : abstract states and step semantics of the request-preamble parser.
// Written from the FastCGI specification and the statements of C01/C03/C04/C05/C06/C11:
// what a conforming server must do with the next bytes of the record stream, given where it is.
// (ReqAbs and params_payload live in spec/req_payload.rs, shared with the lemma unit reqlemmas)

// what follows a skipped / answered record
pub enum NextAbs {
    Header,                                        // no request in progress
    Params { req: ReqAbs, carry: Seq<u8> },        // Params stream of `req` in progress; carry = bytes of an incomplete pair
    Done { req: ReqAbs },                          // Params stream ended; only trailing padding left
}

pub enum RAbs {
    Header,
    HeaderSkip { p: u16, q: u8 },
    HeaderValues { bits: u8, p: u16, q: u8 },
    Params { req: ReqAbs, carry: Seq<u8>, p: u16, q: u8 },
    ParamsSkip { req: ReqAbs, carry: Seq<u8>, p: u16, q: u8 },
    ParamsValues { req: ReqAbs, carry: Seq<u8>, bits: u8, p: u16, q: u8 },
    DoneSkip { req: ReqAbs, p: u16, q: u8 },
    Done { req: ReqAbs },
    Fatal { e: Error },
}

pub open spec fn next_state(n: NextAbs) -> RAbs {
    match n {
        NextAbs::Header => RAbs::Header,
        NextAbs::Params { req, carry } => RAbs::Params { req, carry, p: 0, q: 0 },
        NextAbs::Done { req } => RAbs::Done { req },
    }
}
pub open spec fn skip_abs(n: NextAbs, p: u16, q: u8) -> RAbs {
    match n {
        NextAbs::Header => RAbs::HeaderSkip { p, q },
        NextAbs::Params { req, carry } => RAbs::ParamsSkip { req, carry, p, q },
        NextAbs::Done { req } => RAbs::DoneSkip { req, p, q },
    }
}
// skip `p` payload and `q` padding bytes, then continue with `n` (nothing to skip: continue at once)
pub open spec fn next_skip(n: NextAbs, p: u16, q: u8) -> RAbs {
    if p == 0 && q == 0 { next_state(n) } else { skip_abs(n, p, q) }
}
pub open spec fn values_abs(n: NextAbs, bits: u8, p: u16, q: u8) -> RAbs {
    match n {
        NextAbs::Header => RAbs::HeaderValues { bits, p, q },
        NextAbs::Params { req, carry } => RAbs::ParamsValues { req, carry, bits, p, q },
        NextAbs::Done { req } => RAbs::Done { req },   // never built (a finished request only skips padding)
    }
}
pub open spec fn is_final(a: RAbs) -> bool { a is Done || a is Fatal }

// one step of the parser on the available bytes `d`
pub struct StepSpec {
    pub cont: bool,          // true: the step completed and parsing continues on the rest; false: yield to the caller
    pub consumed: int,       // bytes of d consumed
    pub st: RAbs,            // state afterwards
    pub out: Seq<u8>,        // bytes owed to the client, appended by this step
}

// ---- skipping a record body (stale, foreign, unknown-type or rejected records)
#[verifier::opaque]
pub open spec fn skip_step(n: NextAbs, p: u16, q: u8, d: Seq<u8>) -> StepSpec {
    if d.len() < p {
        StepSpec { cont: false, consumed: d.len() as int, st: skip_abs(n, (p - d.len()) as u16, q), out: seq![] }
    } else if d.len() < p + q {
        StepSpec { cont: false, consumed: d.len() as int, st: skip_abs(n, 0, (q - (d.len() - p)) as u8), out: seq![] }
    } else {
        StepSpec { cont: true, consumed: p + q, st: next_state(n), out: seq![] }
    }
}

// ---- the body of a GetValues management record: known names are collected across partial bodies,
// exactly one GetValuesResult is owed when a non-empty body is complete
#[verifier::opaque]
pub open spec fn values_step(n: NextAbs, bits: u8, p: u16, q: u8, d: Seq<u8>, mc: usize) -> StepSpec {
    let chunk = d.take(min_int(d.len() as int, p as int));      // the part of the body that is available
    let bits2 = if p > 0 { vars_union(bits, decode_pairs(chunk)) } else { bits };
    if p > 0 && d.len() < p {
        // body incomplete: complete pairs are consumed, an incomplete trailing pair waits in the input
        let c = chunk.len() - decode_rest(chunk).len();
        StepSpec { cont: false, consumed: c, st: values_abs(n, bits2, (p - c) as u16, q), out: seq![] }
    } else {
        let out = if p > 0 { values_reply(bits2, mc) } else { seq![] };
        let d1 = d.skip(p as int);
        if d1.len() < q {
            StepSpec { cont: false, consumed: d.len() as int, st: values_abs(n, bits2, 0, (q - d1.len()) as u8), out }
        } else {
            StepSpec { cont: true, consumed: p + q, st: next_state(n), out }
        }
    }
}

// ---- reading a record header
pub enum HeadRes {
    Short,                                              // fewer than 8 bytes: wait
    Bad { e: Error },                                   // cannot be parsed or skipped: fatal
    Unknown { ty: u8, id: u16, p: u16, q: u8 },          // unknown type: reply UnknownType, skip body
    Head { h: fcgi::RecordHeader },
}
pub open spec fn head_res(d: Seq<u8>) -> HeadRes {
    if d.len() < 8 { HeadRes::Short } else {
        match hdr_decode(d.take(8)) {
            Ok(h) => HeadRes::Head { h },
            Err(fcgi::Error::UnknownRecordType(t)) => HeadRes::Unknown { ty: t, id: fcgi::be16(d[2], d[3]), p: fcgi::be16(d[4], d[5]), q: d[6] },
            Err(fcgi::Error::UnknownVersion(v)) => HeadRes::Bad { e: Error::UnknownVersion(v) },
            Err(e) => HeadRes::Bad { e: Error::Protocol(e) },
        }
    }
}

// ---- between requests: waiting for BeginRequest
#[verifier::opaque]
pub open spec fn header_step(d: Seq<u8>) -> StepSpec {
    match head_res(d) {
        HeadRes::Short => StepSpec { cont: false, consumed: 0, st: RAbs::Header, out: seq![] },
        HeadRes::Bad { e } => StepSpec { cont: false, consumed: 0, st: RAbs::Fatal { e }, out: seq![] },
        HeadRes::Unknown { ty, id, p, q } => StepSpec { cont: true, consumed: 8, st: next_skip(NextAbs::Header, p, q), out: unknown_reply(id, ty) },
        HeadRes::Head { h } => {
            if h.rtype is BeginRequest {
                if h.content_length != 8 {
                    StepSpec { cont: false, consumed: 0, st: RAbs::Fatal { e: Error::InvalidRequestLen(h.content_length) }, out: seq![] }
                } else if d.len() < 16 {
                    StepSpec { cont: false, consumed: 0, st: RAbs::Header, out: seq![] }
                } else {
                    match fcgi::begin_decode(d.subrange(8, 16)) {
                        // unknown role: EndRequest(UnknownRole) for that id, padding skipped, connection stays usable
                        Err(fcgi::Error::UnknownRole(r)) => StepSpec { cont: true, consumed: 16, st: next_skip(NextAbs::Header, 0, h.padding_length),
                            out: end_request_bytes(h.request_id, 0, fcgi::ProtocolStatus::UnknownRole) },
                        Err(e) => StepSpec { cont: false, consumed: 16, st: RAbs::Fatal { e: Error::Protocol(e) }, out: seq![] },
                        Ok(b) => if h.request_id == 0 {
                            StepSpec { cont: false, consumed: 16, st: RAbs::Fatal { e: Error::NullRequest }, out: seq![] }
                        } else {
                            StepSpec { cont: true, consumed: 16, out: seq![],
                                st: RAbs::Params { req: ReqAbs { id: h.request_id, role: b.role, flags: b.flags.bits, log: seq![] }, carry: seq![], p: 0, q: h.padding_length } }
                        },
                    }
                }
            } else if h.rtype is GetValues && h.request_id == 0 {
                StepSpec { cont: true, consumed: 8, st: RAbs::HeaderValues { bits: 0, p: h.content_length, q: h.padding_length }, out: seq![] }
            } else {
                // stale stream records, retained abort/end headers of a finished request, anything else: skipped
                StepSpec { cont: true, consumed: 8, st: next_skip(NextAbs::Header, h.content_length, h.padding_length), out: seq![] }
            }
        },
    }
}

// ---- inside the Params stream.  `c` = payload bytes consumed when the record's payload is only partly
// available (implementation-chosen split between its carry buffer and the unread input; everything
// that follows is a function of the consumed prefix only).
#[verifier::opaque]
pub open spec fn params_step(req: ReqAbs, carry: Seq<u8>, p: u16, q: u8, d: Seq<u8>, c: int) -> StepSpec {
    if p > 0 && d.len() < p {
        let (req2, carry2) = params_payload(req, carry, d.take(c));
        StepSpec { cont: false, consumed: c, st: RAbs::Params { req: req2, carry: carry2, p: (p - c) as u16, q }, out: seq![] }
    } else {
        let (req2, carry2) = if p > 0 { params_payload(req, carry, d.take(p as int)) } else { (req, carry) };
        let d1 = d.skip(p as int);
        if q > 0 && d1.len() <= q {
            StepSpec { cont: false, consumed: d.len() as int, st: RAbs::Params { req: req2, carry: carry2, p: 0, q: (q - d1.len()) as u8 }, out: seq![] }
        } else {
            let d2 = d1.skip(q as int);
            let base = p + q;
            let n = NextAbs::Params { req: req2, carry: carry2 };
            match head_res(d2) {
                HeadRes::Short => StepSpec { cont: false, consumed: base, st: RAbs::Params { req: req2, carry: carry2, p: 0, q: 0 }, out: seq![] },
                HeadRes::Bad { e } => StepSpec { cont: false, consumed: base, st: RAbs::Fatal { e }, out: seq![] },
                HeadRes::Unknown { ty, id, p: p2, q: q2 } => StepSpec { cont: true, consumed: base + 8, st: next_skip(n, p2, q2), out: unknown_reply(id, ty) },
                HeadRes::Head { h } => {
                    if h.rtype is Params && h.request_id == req.id {
                        if h.content_length == 0 {
                            // empty Params record: the request is complete (an incomplete trailing pair is dropped)
                            StepSpec { cont: true, consumed: base + 8, st: next_skip(NextAbs::Done { req: req2 }, 0, h.padding_length), out: seq![] }
                        } else {
                            StepSpec { cont: true, consumed: base + 8, st: RAbs::Params { req: req2, carry: carry2, p: h.content_length, q: h.padding_length }, out: seq![] }
                        }
                    } else if h.rtype is AbortRequest && h.request_id == req.id {
                        // abort during Params: EndRequest(RequestComplete, 0) at once, request dropped, back to the initial state
                        StepSpec { cont: true, consumed: base + 8, st: next_skip(NextAbs::Header, h.content_length, h.padding_length),
                            out: end_request_bytes(req.id, 0, fcgi::ProtocolStatus::RequestComplete) }
                    } else if h.rtype is BeginRequest && h.request_id != req.id {
                        // second request on the connection: EndRequest(CantMpxConn) for *its* id, body skipped
                        StepSpec { cont: true, consumed: base + 8, st: next_skip(n, h.content_length, h.padding_length),
                            out: end_request_bytes(h.request_id, 0, fcgi::ProtocolStatus::CantMpxConn) }
                    } else if h.rtype is GetValues && h.request_id == 0 {
                        StepSpec { cont: true, consumed: base + 8, st: RAbs::ParamsValues { req: req2, carry: carry2, bits: 0, p: h.content_length, q: h.padding_length }, out: seq![] }
                    } else {
                        StepSpec { cont: true, consumed: base + 8, st: next_skip(n, h.content_length, h.padding_length), out: seq![] }
                    }
                },
            }
        }
    }
}

// incomplete-pair carry: empty, or a strict prefix of one pair
pub open spec fn carry_ok(carry: Seq<u8>) -> bool { pair_step(carry) is None }

// ---- running the parser over the available bytes: steps are taken until one yields, the bytes run out,
// or a final state is reached.  A Params record whose payload is only partly available is the one step
// whose split is implementation-chosen; the run stops *before* it (partial = true) and the contract of
// the caller describes that last step by its consumed prefix.
pub open spec fn rank(a: RAbs) -> int {
    match a {
        RAbs::HeaderSkip { .. } | RAbs::HeaderValues { .. } | RAbs::ParamsSkip { .. } | RAbs::ParamsValues { .. } | RAbs::DoneSkip { .. } => 1,
        _ => 0,
    }
}
pub open spec fn r_step(a: RAbs, d: Seq<u8>, mc: usize) -> StepSpec {
    match a {
        RAbs::Header => header_step(d),
        RAbs::HeaderSkip { p, q } => skip_step(NextAbs::Header, p, q, d),
        RAbs::HeaderValues { bits, p, q } => values_step(NextAbs::Header, bits, p, q, d, mc),
        RAbs::Params { req, carry, p, q } => params_step(req, carry, p, q, d, 0),
        RAbs::ParamsSkip { req, carry, p, q } => skip_step(NextAbs::Params { req, carry }, p, q, d),
        RAbs::ParamsValues { req, carry, bits, p, q } => values_step(NextAbs::Params { req, carry }, bits, p, q, d, mc),
        RAbs::DoneSkip { req, p, q } => skip_step(NextAbs::Done { req }, p, q, d),
        RAbs::Done { .. } | RAbs::Fatal { .. } => StepSpec { cont: false, consumed: 0, st: a, out: seq![] },
    }
}
pub open spec fn is_partial_params(a: RAbs, d: Seq<u8>) -> bool {
    a matches RAbs::Params { req, carry, p, q } && p > 0 && d.len() < p
}
pub struct RunSpec { pub st: RAbs, pub consumed: int, pub out: Seq<u8>, pub partial: bool }
pub open spec fn r_run(a: RAbs, d: Seq<u8>, mc: usize) -> RunSpec
    decreases d.len(), rank(a),
{
    if is_final(a) || is_partial_params(a, d) {
        RunSpec { st: a, consumed: 0, out: seq![], partial: is_partial_params(a, d) }
    } else {
        let sp = r_step(a, d, mc);
        // (the guard only makes termination evident: every continuing step consumes bytes or leaves a skip/values state)
        if sp.cont && sp.consumed < d.len() && (0 < sp.consumed || (sp.consumed == 0 && rank(sp.st) < rank(a))) {
            let r = r_run(sp.st, d.skip(sp.consumed), mc);
            RunSpec { st: r.st, consumed: sp.consumed + r.consumed, out: sp.out + r.out, partial: r.partial }
        } else {
            RunSpec { st: sp.st, consumed: sp.consumed, out: sp.out, partial: false }
        }
    }
}

pub open spec fn abs_carry_ok(a: RAbs) -> bool {
    match a {
        RAbs::Params { carry, .. } => carry_ok(carry),
        RAbs::ParamsSkip { carry, .. } => carry_ok(carry),
        RAbs::ParamsValues { carry, .. } => carry_ok(carry),
        _ => true,
    }
}
// every continuing step makes progress, and consumes no more than is available
pub proof fn lemma_step_progress(a: RAbs, d: Seq<u8>, mc: usize)
    requires
        !is_partial_params(a, d),
    ensures
        ({
            let sp = r_step(a, d, mc);
            &&& 0 <= sp.consumed <= d.len()
            &&& (sp.cont ==> (0 < sp.consumed || (sp.consumed == 0 && rank(sp.st) < rank(a))))
            &&& ((a is HeaderSkip || a is ParamsSkip || a is DoneSkip || a is Done || a is Fatal) ==> sp.out == Seq::<u8>::empty())
        }),
{
    reveal(skip_step);
    reveal(values_step);
    reveal(header_step);
    reveal(params_step);
    match a {
        RAbs::HeaderValues { bits, p, q } => { lemma_rest_suffix(d.take(min_int(d.len() as int, p as int))); },
        RAbs::ParamsValues { req, carry, bits, p, q } => { lemma_rest_suffix(d.take(min_int(d.len() as int, p as int))); },
        _ => {},
    }
}
// skipping, answering a GetValues query or reading a header never touches the carried incomplete pair
pub proof fn lemma_step_carry(a: RAbs, d: Seq<u8>, mc: usize)
    requires
        abs_carry_ok(a),
        !(a is Params),
    ensures
        abs_carry_ok(r_step(a, d, mc).st),
{
    reveal(skip_step);
    reveal(values_step);
    reveal(header_step);
    lemma_short_header(Seq::<u8>::empty());
}
// a partly available Params payload: whatever prefix is consumed, the step yields and owes nothing
pub proof fn lemma_params_partial(req: ReqAbs, carry: Seq<u8>, p: u16, q: u8, d: Seq<u8>)
    requires
        p > 0 && d.len() < p,
    ensures
        forall|c: int| !(#[trigger] params_step(req, carry, p, q, d, c)).cont && params_step(req, carry, p, q, d, c).out == Seq::<u8>::empty()
            && params_step(req, carry, p, q, d, c).consumed == c,
{
    reveal(params_step);
}
