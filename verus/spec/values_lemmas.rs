// ---- chunking invariance of the individual steps (C03): a step that had to yield for lack of input, continued with
// more input, gives what the step would have given on all the input at once.
pub open spec fn vars_union_l(bits: u8, pairs: Seq<(Seq<u8>, Seq<u8>)>) -> u8 { vars_union(bits, pairs) }

pub proof fn lemma_vars_union_concat(bits: u8, a: Seq<(Seq<u8>, Seq<u8>)>, b: Seq<(Seq<u8>, Seq<u8>)>)
    ensures
        vars_union(bits, a + b) == vars_union(vars_union(bits, a), b), // @C04,C03 reqlemma.vars_union_concat
    decreases a.len(),
{
    if a.len() == 0 {
        assert(a + b =~= b);
    } else {
        assert((a + b)[0] == a[0]);
        assert((a + b).skip(1) =~= a.skip(1) + b);
        lemma_vars_union_concat(bits | var_bit(a[0].0), a.skip(1), b);
    }
}

/// GetValues body split across reads: the names collected from the first part and then from (its undecoded rest +
/// the following bytes) are the names of the whole -- the union is independent of where the body is cut.
pub proof fn lemma_values_split(bits: u8, x: Seq<u8>, y: Seq<u8>)
    ensures
        vars_union(vars_union(bits, decode_pairs(x)), decode_pairs(decode_rest(x) + y)) == vars_union(bits, decode_pairs(x + y)), // @C04,C03 reqlemma.values_body_cut_anywhere
        decode_rest(decode_rest(x) + y) == decode_rest(x + y), // @C04,C03 reqlemma.values_rest_cut_anywhere
{
    lemma_prefix(x, y);
    lemma_vars_union_concat(bits, decode_pairs(x), decode_pairs(decode_rest(x) + y));
}
