// ---- spec/request_abort.rs : C11 on the wire, request-parser half (pure, machine-checked).
// Statement: an AbortRequest record for the request whose Params stream is in progress -- with any body and any
// padding on the abort record itself -- makes the run owe exactly one EndRequest(RequestComplete, app status 0) for
// that id, drop the request and return to the initial state with the whole record consumed; whatever follows on the
// connection (the next request) is then parsed as if nothing had happened.  An AbortRequest met in the initial state
// (the header the stream parser retained, or a late abort for a finished request) is skipped without a reply, and an
// AbortRequest for another id inside the Params stream is skipped without a reply and without touching the request.

pub open spec fn is_abort_rec(id: u16, r: WRec) -> bool {
    &&& wrec_shape(r)
    &&& head_res(r.hdr) matches HeadRes::Head { h }
    &&& h.rtype is AbortRequest && h.request_id == id && h.content_length == r.body.len() && h.padding_length == r.pad.len()
}
pub open spec fn abort_reply(id: u16) -> Seq<u8> { end_request_bytes(id, 0, fcgi::ProtocolStatus::RequestComplete) }

/// One AbortRequest record for the request in progress, from a record boundary inside its Params stream.
pub proof fn lemma_abort_record(req: ReqAbs, carry: Seq<u8>, r: WRec, mc: usize)
    requires
        is_abort_rec(req.id, r),
    ensures
        r_run(boundary(req, carry), wrec_wire(r), mc) == (RunSpec { st: RAbs::Header, consumed: wrec_wire(r).len() as int,
            out: abort_reply(req.id), partial: false }), // @C11,C04 reqabort.abort_in_params_one_end_request_back_to_initial
{
    reveal(params_head);
    reveal(params_tail);
    reveal(skip_step);
    let e = Seq::<u8>::empty();
    let a = boundary(req, carry);
    let d = wrec_wire(r);
    let p = r.body.len() as u16;
    let q = r.pad.len() as u8;
    let bp = r.body + r.pad;
    assert(d =~= r.hdr + bp);
    lemma_params_decompose(req, carry, 0, 0, d);
    assert(d.skip(0) =~= d);
    lemma_head_res_ext(r.hdr, bp);
    let s1 = r_step(a, d, mc);
    assert(s1.cont && s1.consumed == 8 && s1.out == abort_reply(req.id));
    assert(d.skip(8) =~= bp);
    if bp.len() > 0 {
        let s2 = r_step(s1.st, bp, mc);
        let r2 = r_run(s1.st, bp, mc);
        assert(!is_final(s1.st) && !is_partial_params(s1.st, bp));
        assert(s2.st == RAbs::Header && s2.consumed == bp.len() && s2.out == e && s2.cont);
        assert(r2 == (RunSpec { st: s2.st, consumed: s2.consumed, out: s2.out, partial: false }));
        assert(s1.out + e =~= s1.out);
        assert(r_run(a, d, mc) == (RunSpec { st: r2.st, consumed: 8 + r2.consumed, out: s1.out + r2.out, partial: r2.partial }));
    } else {
        assert(s1.st == RAbs::Header);
        assert(d.len() == 8);
    }
}

/// An AbortRequest record (any id, any body, any padding) met between requests -- e.g. the abort header the stream
/// parser kept in its buffer and handed over -- is skipped: no reply, back at the initial state, nothing else consumed.
pub proof fn lemma_retained_abort_skipped(id2: u16, r: WRec, mc: usize)
    requires
        is_abort_rec(id2, r),
    ensures
        r_run(RAbs::Header, wrec_wire(r), mc) == (RunSpec { st: RAbs::Header, consumed: wrec_wire(r).len() as int,
            out: Seq::<u8>::empty(), partial: false }), // @C11 reqabort.retained_abort_header_is_skipped_silently
{
    reveal(header_step);
    reveal(skip_step);
    let e = Seq::<u8>::empty();
    let d = wrec_wire(r);
    let bp = r.body + r.pad;
    assert(d =~= r.hdr + bp);
    lemma_head_res_ext(r.hdr, bp);
    let s1 = r_step(RAbs::Header, d, mc);
    assert(s1.cont && s1.consumed == 8 && s1.out == e);
    assert(d.skip(8) =~= bp);
    if bp.len() > 0 {
        let s2 = r_step(s1.st, bp, mc);
        let r2 = r_run(s1.st, bp, mc);
        assert(!is_final(s1.st) && !is_partial_params(s1.st, bp));
        assert(s2.st == RAbs::Header && s2.consumed == bp.len() && s2.out == e && s2.cont);
        assert(r2 == (RunSpec { st: s2.st, consumed: s2.consumed, out: s2.out, partial: false }));
        assert(e + e =~= e);
        assert(r_run(RAbs::Header, d, mc) == (RunSpec { st: r2.st, consumed: 8 + r2.consumed, out: s1.out + r2.out, partial: r2.partial }));
    } else {
        assert(s1.st == RAbs::Header);
        assert(d.len() == 8);
    }
}

/// An AbortRequest for any other id inside the Params stream is ignored: no reply, the request and the carried
/// incomplete pair are untouched, the record (body and padding included) is consumed.
pub proof fn lemma_foreign_abort_ignored(req: ReqAbs, carry: Seq<u8>, id2: u16, r: WRec, mc: usize)
    requires
        is_abort_rec(id2, r),
        id2 != req.id,
    ensures
        r_run(boundary(req, carry), wrec_wire(r), mc) == (RunSpec { st: boundary(req, carry), consumed: wrec_wire(r).len() as int,
            out: Seq::<u8>::empty(), partial: false }), // @C11 reqabort.abort_for_another_id_is_ignored
{
    assert(is_skipped_rec(req.id, r));
    assert(!is_params_rec(req.id, r));
    lemma_one_record(req, carry, r, mc);
}

/// The whole story: BeginRequest, any well-formed records, then the AbortRequest, then anything (`tail`, non-empty).
/// Exactly one EndRequest(RequestComplete) for `id` is owed, after the replies of the records before it and before
/// anything owed for what follows; the abort record is consumed whole; what follows is run from the initial state.
pub proof fn lemma_abort_then_continue(b: Seq<u8>, bpad: Seq<u8>, recs: Seq<WRec>, ab: WRec, id: u16, role: fcgi::Role, flags: u8, tail: Seq<u8>, mc: usize)
    requires
        is_begin(b, bpad, id, role, flags),
        forall|i: int| 0 <= i < recs.len() ==> wrec_ok(id, #[trigger] recs[i]),
        is_abort_rec(id, ab),
    ensures
        ({
            let wire = (b + bpad) + (wire_all(recs) + wrec_wire(ab));
            &&& r_run(RAbs::Header, wire, mc) == (RunSpec { st: RAbs::Header, consumed: wire.len() as int,
                    out: replies_all(id, recs, mc) + abort_reply(id), partial: false }) // @C11,C04 reqabort.aborted_preamble_owes_one_end_request
            &&& tail.len() > 0 ==> r_run(RAbs::Header, wire + tail, mc) == run_prepend(wire.len() as int, replies_all(id, recs, mc) + abort_reply(id),
                    r_run(RAbs::Header, tail, mc)) // @C11,C05 reqabort.connection_continues_from_initial_state
        }),
{
    let e = Seq::<u8>::empty();
    let el = Seq::<(Seq<u8>, Seq<u8>)>::empty();
    let x = b + bpad;
    let aw = wrec_wire(ab);
    let y = wire_all(recs) + aw;
    let wire = x + y;
    let req0 = ReqAbs { id, role, flags, log: el };
    lemma_begin(b, bpad, id, role, flags, mc);
    assert(aw.len() >= 8);
    lemma_rrun_split(RAbs::Header, x, y, mc);
    assert(x.skip(x.len() as int) + y =~= y);
    lemma_records_run(req0, e, recs, aw, mc);
    let (r2, c2) = after_all(req0, e, recs);
    lemma_abort_record(r2, c2, ab, mc);
    let o = replies_all(id, recs, mc) + abort_reply(id);
    assert(e + (replies_all(id, recs, mc) + abort_reply(id)) =~= o);
    assert(r_run(RAbs::Header, wire, mc) == (RunSpec { st: RAbs::Header, consumed: wire.len() as int, out: o, partial: false }));
    if tail.len() > 0 {
        lemma_rrun_split(RAbs::Header, wire, tail, mc);
        assert(wire.skip(wire.len() as int) + tail =~= tail);
    }
}

/// ... in particular the next request on the same connection is served correctly: an aborted preamble followed by a
/// complete preamble of request `id2` ends in Done{exactly request id2}, owing the replies of the first preamble's
/// records, the one EndRequest for `id`, then the replies of the second preamble's records -- under every read schedule.
pub proof fn lemma_abort_then_next_request(b: Seq<u8>, bpad: Seq<u8>, recs: Seq<WRec>, ab: WRec, id: u16, role: fcgi::Role, flags: u8,
                                           b2: Seq<u8>, bpad2: Seq<u8>, recs2: Seq<WRec>, term2: WRec, id2: u16, role2: fcgi::Role, flags2: u8,
                                           chunks: Seq<Seq<u8>>, cs: spec_fn(int) -> int, mc: usize)
    requires
        is_begin(b, bpad, id, role, flags),
        forall|i: int| 0 <= i < recs.len() ==> wrec_ok(id, #[trigger] recs[i]),
        is_abort_rec(id, ab),
        is_begin(b2, bpad2, id2, role2, flags2),
        forall|i: int| 0 <= i < recs2.len() ==> wrec_ok(id2, #[trigger] recs2[i]),
        is_term_rec(id2, term2),
        chunks.len() > 0,
        forall|k: int| 0 <= k < chunks.len() ==> (#[trigger] chunks[k]).len() > 0,
        rflat(chunks) == ((b + bpad) + (wire_all(recs) + wrec_wire(ab))) + ((b2 + bpad2) + (wire_all(recs2) + wrec_wire(term2))),
    ensures
        ({
            let f = rfeed(RAbs::Header, Seq::<u8>::empty(), Seq::<u8>::empty(), chunks, cs, 0, mc);
            &&& f.a == (RAbs::Done { req: ReqAbs { id: id2, role: role2, flags: flags2, log: decode_pairs(payload_all(id2, recs2)) } }) // @C11,C01 reqabort.next_request_after_abort_is_exact
            &&& f.u == Seq::<u8>::empty() // @C11,C05 reqabort.next_request_after_abort_consumes_everything
            &&& f.out == (replies_all(id, recs, mc) + abort_reply(id)) + replies_all(id2, recs2, mc) // @C11,C04 reqabort.exactly_one_end_request_under_any_reads
        }),
{
    let e = Seq::<u8>::empty();
    let w1 = (b + bpad) + (wire_all(recs) + wrec_wire(ab));
    let w2 = (b2 + bpad2) + (wire_all(recs2) + wrec_wire(term2));
    let wire = w1 + w2;
    assert(wrec_wire(term2).len() >= 8);
    assert(w2.len() > 0);
    lemma_abort_then_continue(b, bpad, recs, ab, id, role, flags, w2, mc);
    lemma_preamble(b2, bpad2, recs2, term2, id2, role2, flags2, mc);
    let o = (replies_all(id, recs, mc) + abort_reply(id)) + replies_all(id2, recs2, mc);
    lemma_any_reads_any_choices(RAbs::Header, e, e, chunks, cs, 0, mc);
    assert(e + wire =~= wire);
    assert(wire.skip(wire.len() as int) =~= e);
    assert(e + o =~= o);
}

/// Non-vacuity: a concrete AbortRequest record for request 1 carrying a 2-byte body and 3 bytes of padding.
pub proof fn lemma_abort_witness()
    ensures
        ({
            let ab = WRec { hdr: seq![1u8, 2, 0, 1, 0, 2, 3, 0], body: seq![7u8, 7], pad: seq![0u8, 0, 0] };
            is_abort_rec(1, ab) && !is_skipped_rec(1, ab) && is_skipped_rec(2, ab)
        }), // @C11 reqabort.hypotheses_are_satisfiable
{
    let h = seq![1u8, 2, 0, 1, 0, 2, 3, 0];
    assert(h.take(8) =~= h);
}
