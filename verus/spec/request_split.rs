// ---- spec/request_split.rs : read-chunking invariance of the request-preamble parser's run specification
// (pure, machine-checked).  Statement (C01 "the result does not depend on how the byte stream is cut into reads",
// C03 "chunking invariance"): one call of Parser::parse is, by its contract, `call` below -- the specification run
// r_run over the bytes available, where a Params record whose payload is only partly available is consumed up to an
// implementation-chosen point c.  Whatever the cuts and whatever the choices, the configuration reached (state +
// unread bytes, compared after taking in the unread part of such a payload: `absorb`) and the replies owed are those
// of a single call on all the bytes.

pub struct RConf { pub a: RAbs, pub u: Seq<u8>, pub out: Seq<u8> }

// taking in the unread part of a partly available Params payload
pub open spec fn absorb(a: RAbs, u: Seq<u8>) -> (RAbs, Seq<u8>) {
    match a {
        RAbs::Params { req, carry, p, q } => if 0 < u.len() < p {
            let (r2, c2) = params_payload(req, carry, u);
            (RAbs::Params { req: r2, carry: c2, p: (p - u.len()) as u16, q }, Seq::<u8>::empty())
        } else { (a, u) },
        _ => (a, u),
    }
}
pub open spec fn clamp(c: int, n: int) -> int { if c < 0 { 0 } else if c > n { n } else { c } }
// one call of Parser::parse on the bytes `avail` (unread + newly read), as its contract describes it
pub open spec fn call(a: RAbs, avail: Seq<u8>, mc: usize, c: int) -> RConf {
    let rs = r_run(a, avail, mc);
    let d1 = avail.skip(rs.consumed);
    if !rs.partial { RConf { a: rs.st, u: d1, out: rs.out } } else {
        match rs.st {
            RAbs::Params { req, carry, p, q } => { let k = clamp(c, d1.len() as int); RConf { a: params_step(req, carry, p, q, d1, k).st, u: d1.skip(k), out: rs.out } },
            _ => RConf { a: rs.st, u: d1, out: rs.out },
        }
    }
}
// ... compared after absorbing
pub open spec fn ecall(a: RAbs, avail: Seq<u8>, mc: usize) -> RConf {
    let r = call(a, avail, mc, 0);
    RConf { a: absorb(r.a, r.u).0, u: absorb(r.a, r.u).1, out: r.out }
}

pub proof fn lemma_pp_compose(req: ReqAbs, carry: Seq<u8>, x: Seq<u8>, y: Seq<u8>)
    ensures
        params_payload(params_payload(req, carry, x).0, params_payload(req, carry, x).1, y) == params_payload(req, carry, x + y), // @C01,C03 reqsplit.payload_cut_anywhere
{
    lemma_prefix(carry + x, y);
    assert((carry + x) + y =~= carry + (x + y));
    let l0 = req.log;
    assert((l0 + decode_pairs(carry + x)) + decode_pairs(decode_rest(carry + x) + y) =~= l0 + (decode_pairs(carry + x) + decode_pairs(decode_rest(carry + x) + y)));
}

// every run consumes within its input
pub proof fn lemma_rrun_consumed(a: RAbs, d: Seq<u8>, mc: usize)
    ensures
        0 <= r_run(a, d, mc).consumed <= d.len(), // @C03,C05 reqsplit.run_consumes_within_input
        r_run(a, d, mc).partial ==> is_partial_params(r_run(a, d, mc).st, d.skip(r_run(a, d, mc).consumed)),
        !r_run(a, d, mc).partial ==> !is_partial_params(r_run(a, d, mc).st, d.skip(r_run(a, d, mc).consumed)) || r_run(a, d, mc).consumed == d.len() || true,
    decreases d.len(), rank(a),
{
    if is_final(a) || is_partial_params(a, d) {
        assert(d.skip(0) =~= d);
    } else {
        lemma_step_progress(a, d, mc);
        let sp = r_step(a, d, mc);
        if sp.cont && sp.consumed < d.len() && (0 < sp.consumed || (sp.consumed == 0 && rank(sp.st) < rank(a))) {
            lemma_rrun_consumed(sp.st, d.skip(sp.consumed), mc);
            assert(d.skip(sp.consumed).skip(r_run(sp.st, d.skip(sp.consumed), mc).consumed) =~= d.skip(sp.consumed + r_run(sp.st, d.skip(sp.consumed), mc).consumed));
        }
    }
}

/// The implementation's choice does not matter: whatever prefix of a partly available Params payload a call consumes,
/// after absorbing the rest the configuration is the same.
pub proof fn lemma_choice_irrelevant(a: RAbs, avail: Seq<u8>, mc: usize, c: int)
    ensures
        absorb(call(a, avail, mc, c).a, call(a, avail, mc, c).u) == (ecall(a, avail, mc).a, ecall(a, avail, mc).u), // @C01,C03 reqsplit.consumed_prefix_choice_irrelevant
        call(a, avail, mc, c).out == ecall(a, avail, mc).out,
{
    reveal(params_step);
    let rs = r_run(a, avail, mc);
    lemma_rrun_consumed(a, avail, mc);
    let d1 = avail.skip(rs.consumed);
    if rs.partial {
        match rs.st {
            RAbs::Params { req, carry, p, q } => {
                let k = clamp(c, d1.len() as int);
                assert(d1.take(k) + d1.skip(k) =~= d1);
                assert(d1.take(0) + d1.skip(0) =~= d1);
                lemma_pp_compose(req, carry, d1.take(k), d1.skip(k));
                lemma_pp_compose(req, carry, d1.take(0), d1.skip(0));
                if k == d1.len() {
                    assert(d1.take(k) =~= d1);
                    assert(d1.skip(k) =~= Seq::<u8>::empty());
                }
            },
            _ => {},
        }
    }
}

pub proof fn lemma_carry_empty(req: ReqAbs, carry: Seq<u8>)
    requires carry_ok(carry),
    ensures params_payload(req, carry, Seq::<u8>::empty()) == (req, carry),
{
    reveal(pair_step);
    assert(carry + Seq::<u8>::empty() =~= carry);
    assert(req.log + Seq::<(Seq<u8>, Seq<u8>)>::empty() =~= req.log);
}

// a stopped step `sp`, resumed by `s2`
pub open spec fn step_then(sp: StepSpec, s2: StepSpec) -> StepSpec {
    StepSpec { cont: s2.cont, consumed: sp.consumed + s2.consumed, st: s2.st, out: sp.out + s2.out }
}

pub proof fn lemma_skip_split(n: NextAbs, p: u16, q: u8, x: Seq<u8>, y: Seq<u8>)
    ensures
        ({
            let sp = skip_step(n, p, q, x);
            let sf = skip_step(n, p, q, x + y);
            let p2 = if x.len() < p { (p - x.len()) as u16 } else { 0u16 };
            let q2 = if x.len() < p { q } else { (q - (x.len() - p)) as u8 };
            &&& (sp.cont ==> sf == sp) // @C03 reqsplit.skip.complete_is_stable
            &&& (!sp.cont ==> sp.consumed == x.len() && sp.st == skip_abs(n, p2, q2) && sp.out == Seq::<u8>::empty()
                    && sf == step_then(sp, skip_step(n, p2, q2, y))) // @C03 reqsplit.skip.cut_anywhere
        }),
{
    reveal(skip_step);
    let e = Seq::<u8>::empty();
    assert(e + e =~= e);
}

pub proof fn lemma_values_step_split(n: NextAbs, bits: u8, p: u16, q: u8, x: Seq<u8>, y: Seq<u8>, mc: usize)
    ensures
        ({
            let sp = values_step(n, bits, p, q, x, mc);
            let sf = values_step(n, bits, p, q, x + y, mc);
            &&& (sp.cont ==> sf == sp) // @C03,C04 reqsplit.values.complete_is_stable
            &&& (!sp.cont && p > 0 && x.len() < p ==> {
                    let bits2 = vars_union(bits, decode_pairs(x));
                    let c = sp.consumed;
                    &&& 0 <= c <= x.len() && x.skip(c) == decode_rest(x) && sp.st == values_abs(n, bits2, (p - c) as u16, q) && sp.out == Seq::<u8>::empty()
                    &&& sf == step_then(sp, values_step(n, bits2, (p - c) as u16, q, decode_rest(x) + y, mc))
                }) // @C03,C04 reqsplit.values.body_cut_anywhere
            &&& (!sp.cont && !(p > 0 && x.len() < p) ==> {
                    let bits2 = if p > 0 { vars_union(bits, decode_pairs(x.take(p as int))) } else { bits };
                    let q2 = (q - (x.len() - p)) as u8;
                    &&& sp.consumed == x.len() && sp.st == values_abs(n, bits2, 0, q2)
                    &&& sf == step_then(sp, values_step(n, bits2, 0, q2, y, mc))
                }) // @C03,C04 reqsplit.values.padding_cut_anywhere
        }),
{
    reveal(values_step);
    let e = Seq::<u8>::empty();
    let xy = x + y;
    let pi = p as int;
    if p > 0 && x.len() < p {
        let chunk = x.take(min_int(x.len() as int, pi));
        assert(chunk =~= x);
        lemma_rest_suffix(x);
        let c = x.len() - decode_rest(x).len();
        assert(x.skip(c) =~= decode_rest(x));
        let bits2 = vars_union(bits, decode_pairs(x));
        let z = decode_rest(x) + y;
        let p2 = (p - c) as u16;
        if xy.len() < p {
            assert(xy.take(min_int(xy.len() as int, pi)) =~= xy);
            assert(z.take(min_int(z.len() as int, p2 as int)) =~= z);
            lemma_values_split(bits, x, y);
            assert(e + e =~= e);
        } else {
            let y1 = y.take(pi - x.len());
            assert(xy.take(min_int(xy.len() as int, pi)) =~= x + y1);
            assert(z.take(min_int(z.len() as int, p2 as int)) =~= decode_rest(x) + y1);
            lemma_values_split(bits, x, y1);
            assert(xy.skip(pi) =~= z.skip(p2 as int));
            let s2 = values_step(n, bits2, p2, q, z, mc);
            assert(e + s2.out =~= s2.out);
        }
    } else {
        assert(xy.take(min_int(xy.len() as int, pi)) =~= x.take(min_int(x.len() as int, pi)));
        assert(xy.skip(pi) =~= x.skip(pi) + y);
        let sp = values_step(n, bits, p, q, x, mc);
        if !sp.cont {
            let q2 = (q - (x.len() - p)) as u8;
            assert(y.take(min_int(y.len() as int, 0)) =~= e);
            assert(y.skip(0) =~= y);
            assert(sp.out + e =~= sp.out);
        }
    }
}

// a record header is its first 8 bytes
pub proof fn lemma_head_res_ext(d: Seq<u8>, y: Seq<u8>)
    requires d.len() >= 8,
    ensures head_res(d + y) == head_res(d), // @C03 reqsplit.header_is_first_8_bytes
{
    assert((d + y).take(8) =~= d.take(8));
    assert((d + y)[2] == d[2] && (d + y)[3] == d[3] && (d + y)[4] == d[4] && (d + y)[5] == d[5] && (d + y)[6] == d[6]);
}

pub proof fn lemma_header_step_split(x: Seq<u8>, y: Seq<u8>)
    ensures
        ({
            let sp = header_step(x);
            let sf = header_step(x + y);
            &&& (sp.cont || is_final(sp.st) ==> sf == sp) // @C01,C03,C04 reqsplit.header.decided_is_stable
            &&& (!sp.cont && !is_final(sp.st) ==> sp.consumed == 0 && sp.st == RAbs::Header && sp.out == Seq::<u8>::empty()) // @C01,C03 reqsplit.header.waits_without_consuming
        }),
{
    reveal(header_step);
    if x.len() >= 8 {
        lemma_head_res_ext(x, y);
        if x.len() >= 16 {
            assert((x + y).subrange(8, 16) =~= x.subrange(8, 16));
        }
    }
}

// ---- params_step in stages (payload, padding, next header), to keep the queries small
pub open spec fn shift_step(k: int, s: StepSpec) -> StepSpec { StepSpec { cont: s.cont, consumed: k + s.consumed, st: s.st, out: s.out } }
#[verifier::opaque]
pub open spec fn params_head(id: u16, req2: ReqAbs, carry2: Seq<u8>, d2: Seq<u8>) -> StepSpec {
    let n = NextAbs::Params { req: req2, carry: carry2 };
    match head_res(d2) {
        HeadRes::Short => StepSpec { cont: false, consumed: 0, st: RAbs::Params { req: req2, carry: carry2, p: 0, q: 0 }, out: seq![] },
        HeadRes::Bad { e } => StepSpec { cont: false, consumed: 0, st: RAbs::Fatal { e }, out: seq![] },
        HeadRes::Unknown { ty, id: id2, p: p2, q: q2 } => StepSpec { cont: true, consumed: 8, st: next_skip(n, p2, q2), out: unknown_reply(id2, ty) },
        HeadRes::Head { h } => {
            if h.rtype is Params && h.request_id == id {
                if h.content_length == 0 {
                    StepSpec { cont: true, consumed: 8, st: next_skip(NextAbs::Done { req: req2 }, 0, h.padding_length), out: seq![] }
                } else {
                    StepSpec { cont: true, consumed: 8, st: RAbs::Params { req: req2, carry: carry2, p: h.content_length, q: h.padding_length }, out: seq![] }
                }
            } else if h.rtype is AbortRequest && h.request_id == id {
                StepSpec { cont: true, consumed: 8, st: next_skip(NextAbs::Header, h.content_length, h.padding_length),
                    out: end_request_bytes(id, 0, fcgi::ProtocolStatus::RequestComplete) }
            } else if h.rtype is BeginRequest && h.request_id != id {
                StepSpec { cont: true, consumed: 8, st: next_skip(n, h.content_length, h.padding_length),
                    out: end_request_bytes(h.request_id, 0, fcgi::ProtocolStatus::CantMpxConn) }
            } else if h.rtype is GetValues && h.request_id == 0 {
                StepSpec { cont: true, consumed: 8, st: RAbs::ParamsValues { req: req2, carry: carry2, bits: 0, p: h.content_length, q: h.padding_length }, out: seq![] }
            } else {
                StepSpec { cont: true, consumed: 8, st: next_skip(n, h.content_length, h.padding_length), out: seq![] }
            }
        },
    }
}
#[verifier::opaque]
pub open spec fn params_tail(id: u16, req2: ReqAbs, carry2: Seq<u8>, q: u8, d1: Seq<u8>) -> StepSpec {
    if q > 0 && d1.len() <= q {
        StepSpec { cont: false, consumed: d1.len() as int, st: RAbs::Params { req: req2, carry: carry2, p: 0, q: (q - d1.len()) as u8 }, out: seq![] }
    } else {
        shift_step(q as int, params_head(id, req2, carry2, d1.skip(q as int)))
    }
}
pub proof fn lemma_params_decompose(req: ReqAbs, carry: Seq<u8>, p: u16, q: u8, d: Seq<u8>)
    requires p == 0 || d.len() >= p,
    ensures
        params_step(req, carry, p, q, d, 0) == shift_step(p as int, params_tail(req.id,
            (if p > 0 { params_payload(req, carry, d.take(p as int)) } else { (req, carry) }).0,
            (if p > 0 { params_payload(req, carry, d.take(p as int)) } else { (req, carry) }).1, q, d.skip(p as int))),
{
    reveal(params_step);
    reveal(params_tail);
    reveal(params_head);
}
pub proof fn lemma_params_head_ext(id: u16, req2: ReqAbs, carry2: Seq<u8>, d2: Seq<u8>, y: Seq<u8>)
    ensures
        d2.len() >= 8 ==> params_head(id, req2, carry2, d2 + y) == params_head(id, req2, carry2, d2),
        d2.len() >= 8 ==> (params_head(id, req2, carry2, d2).cont || is_final(params_head(id, req2, carry2, d2).st)),
        d2.len() < 8 ==> params_head(id, req2, carry2, d2) == (StepSpec { cont: false, consumed: 0, st: RAbs::Params { req: req2, carry: carry2, p: 0, q: 0 }, out: Seq::<u8>::empty() }),
        params_head(id, req2, carry2, d2).cont ==> params_head(id, req2, carry2, d2).consumed == 8,
        !params_head(id, req2, carry2, d2).cont ==> params_head(id, req2, carry2, d2).consumed == 0 && params_head(id, req2, carry2, d2).out == Seq::<u8>::empty(),
{
    reveal(params_head);
    if d2.len() >= 8 { lemma_head_res_ext(d2, y); }
}
pub proof fn lemma_params_tail_split(id: u16, req2: ReqAbs, carry2: Seq<u8>, q: u8, d1: Seq<u8>, y: Seq<u8>)
    ensures
        ({
            let sp = params_tail(id, req2, carry2, q, d1);
            let sf = params_tail(id, req2, carry2, q, d1 + y);
            &&& (sp.cont || is_final(sp.st) ==> sf == sp)
            &&& (!sp.cont && !is_final(sp.st) ==> (sp.st matches RAbs::Params { req: r2, carry: c2, p: p2, q: q2 } && p2 == 0 && r2 == req2 && c2 == carry2
                    && 0 <= sp.consumed <= d1.len() && sp.out == Seq::<u8>::empty()
                    && sf == step_then(sp, params_tail(id, req2, carry2, q2, d1.skip(sp.consumed) + y))))
        }),
{
    reveal(params_tail);
    let e = Seq::<u8>::empty();
    let qi = q as int;
    let sp = params_tail(id, req2, carry2, q, d1);
    let sf = params_tail(id, req2, carry2, q, d1 + y);
    if q > 0 && d1.len() <= q {
        let q2 = (q - d1.len()) as u8;
        assert(d1.skip(d1.len() as int) + y =~= y);
        let s2 = params_tail(id, req2, carry2, q2, y);
        assert(e + s2.out =~= s2.out);
        if d1.len() + y.len() > q {
            assert((d1 + y).skip(qi) =~= y.skip(q2 as int));
            assert(sf == step_then(sp, s2));
        } else if q2 == 0 {
            assert(y.len() == 0);
            lemma_params_head_ext(id, req2, carry2, y.skip(0), e);
            assert(sf == step_then(sp, s2));
        } else {
            assert(sf == step_then(sp, s2));
        }
    } else {
        let d2 = d1.skip(qi);
        assert((d1 + y).skip(qi) =~= d2 + y);
        lemma_params_head_ext(id, req2, carry2, d2, y);
        if d2.len() < 8 {
            let z = d1.skip(qi) + y;
            assert(z.skip(0) =~= z);
            let s2 = params_tail(id, req2, carry2, 0, z);
            assert(e + s2.out =~= s2.out);
            assert(sp.consumed == qi);
            assert(s2 == shift_step(0, params_head(id, req2, carry2, z)));
            assert(sf == step_then(sp, s2));
        } else {
            assert(sf == sp);
        }
    }
}

/// the Params-stream step with its payload completely available (or none)
pub proof fn lemma_params_step_split(req: ReqAbs, carry: Seq<u8>, p: u16, q: u8, x: Seq<u8>, y: Seq<u8>)
    requires
        p == 0 || x.len() >= p,
    ensures
        ({
            let sp = params_step(req, carry, p, q, x, 0);
            let sf = params_step(req, carry, p, q, x + y, 0);
            &&& (sp.cont || is_final(sp.st) ==> sf == sp) // @C01,C03,C04,C11 reqsplit.params.decided_is_stable
            &&& (!sp.cont && !is_final(sp.st) ==> (sp.st matches RAbs::Params { req: r2, carry: c2, p: p2, q: q2 } && p2 == 0
                    && 0 <= sp.consumed <= x.len() && sp.out == Seq::<u8>::empty()
                    && sf == step_then(sp, params_step(r2, c2, 0, q2, x.skip(sp.consumed) + y, 0)))) // @C01,C03 reqsplit.params.padding_or_header_cut_anywhere
        }),
{
    let xy = x + y;
    let pi = p as int;
    assert(xy.take(pi) =~= x.take(pi));
    let d1 = x.skip(pi);
    assert(xy.skip(pi) =~= d1 + y);
    let (r2, c2) = if p > 0 { params_payload(req, carry, x.take(pi)) } else { (req, carry) };
    lemma_params_decompose(req, carry, p, q, x);
    lemma_params_decompose(req, carry, p, q, xy);
    lemma_params_tail_split(req.id, r2, c2, q, d1, y);
    let tp = params_tail(req.id, r2, c2, q, d1);
    if !tp.cont && !is_final(tp.st) {
        let q2 = tp.st->Params_q;
        let z = x.skip(pi + tp.consumed) + y;
        assert(d1.skip(tp.consumed) =~= x.skip(pi + tp.consumed));
        lemma_params_decompose(r2, c2, 0, q2, z);
        assert(z.skip(0) =~= z);
        assert(r2.id == req.id);
    }
}

// ---- one step, cut anywhere
pub proof fn lemma_step_split(a: RAbs, x: Seq<u8>, y: Seq<u8>, mc: usize)
    requires
        !is_final(a),
        !is_partial_params(a, x),
    ensures
        ({
            let sp = r_step(a, x, mc);
            let sf = r_step(a, x + y, mc);
            let z = x.skip(sp.consumed) + y;
            &&& !is_partial_params(a, x + y)
            &&& 0 <= sp.consumed <= x.len()
            &&& (sp.cont || is_final(sp.st) ==> sf == sp) // @C01,C03,C04 reqsplit.step.decided_is_stable
            &&& (!sp.cont && !is_final(sp.st) ==> !is_partial_params(sp.st, z) && sf == step_then(sp, r_step(sp.st, z, mc))) // @C01,C03,C04 reqsplit.step.cut_anywhere
        }),
{
    let e = Seq::<u8>::empty();
    lemma_step_progress(a, x, mc);
    let sp = r_step(a, x, mc);
    let z = x.skip(sp.consumed) + y;
    match a {
        RAbs::Header => {
            lemma_header_step_split(x, y);
            if !sp.cont && !is_final(sp.st) {
                assert(z =~= x + y);
                let s2 = r_step(sp.st, z, mc);
                assert(e + s2.out =~= s2.out);
            }
        },
        RAbs::HeaderSkip { p, q } => { lemma_skip_split(NextAbs::Header, p, q, x, y); if !sp.cont { assert(z =~= y); } },
        RAbs::ParamsSkip { req, carry, p, q } => { lemma_skip_split(NextAbs::Params { req, carry }, p, q, x, y); if !sp.cont { assert(z =~= y); } },
        RAbs::DoneSkip { req, p, q } => { lemma_skip_split(NextAbs::Done { req }, p, q, x, y); if !sp.cont { assert(z =~= y); } },
        RAbs::HeaderValues { bits, p, q } => {
            lemma_values_step_split(NextAbs::Header, bits, p, q, x, y, mc);
            if !sp.cont && !(p > 0 && x.len() < p) { assert(z =~= y); }
        },
        RAbs::ParamsValues { req, carry, bits, p, q } => {
            lemma_values_step_split(NextAbs::Params { req, carry }, bits, p, q, x, y, mc);
            if !sp.cont && !(p > 0 && x.len() < p) { assert(z =~= y); }
        },
        RAbs::Params { req, carry, p, q } => { lemma_params_step_split(req, carry, p, q, x, y); },
        _ => {},
    }
}

pub open spec fn run_prepend(consumed: int, out: Seq<u8>, r: RunSpec) -> RunSpec {
    RunSpec { st: r.st, consumed: consumed + r.consumed, out: out + r.out, partial: r.partial }
}

/// (case of lemma_rrun_split where the run over x ends with its first step)
pub proof fn lemma_rrun_resume(a: RAbs, x: Seq<u8>, y: Seq<u8>, mc: usize)
    requires
        !is_final(a),
        !is_partial_params(a, x),
        y.len() > 0,
        !(r_step(a, x, mc).cont && r_step(a, x, mc).consumed < x.len()),
    ensures
        r_run(a, x + y, mc) == run_prepend(r_step(a, x, mc).consumed, r_step(a, x, mc).out, r_run(r_step(a, x, mc).st, x.skip(r_step(a, x, mc).consumed) + y, mc)),
{
    let e = Seq::<u8>::empty();
    let xy = x + y;
    let sp = r_step(a, x, mc);
    let sf = r_step(a, xy, mc);
    let z = x.skip(sp.consumed) + y;
    lemma_step_split(a, x, y, mc);
    lemma_step_progress(a, x, mc);
    lemma_step_progress(a, xy, mc);
    if sp.cont {
        assert(sp.consumed == x.len());
        assert(xy.skip(sp.consumed) =~= z);
    } else if is_final(sp.st) {
        assert(sp.out + e =~= sp.out);
    } else {
        let s2 = r_step(sp.st, z, mc);
        lemma_step_progress(sp.st, z, mc);
        assert(xy.skip(sf.consumed) =~= z.skip(s2.consumed));
        if s2.cont && s2.consumed < z.len() {
            let t = r_run(s2.st, z.skip(s2.consumed), mc);
            assert((sp.out + s2.out) + t.out =~= sp.out + (s2.out + t.out));
        }
    }
}

/// Read-chunking invariance of the specification run: the run over x, continued -- from the state it reached, with
/// the bytes it left unread in front -- over y, is the run over x ++ y (for every state and every cut, also through
/// headers, bodies, padding, name-value pairs).
pub proof fn lemma_rrun_split(a: RAbs, x: Seq<u8>, y: Seq<u8>, mc: usize)
    requires
        y.len() > 0,
    ensures
        ({
            let r1 = r_run(a, x, mc);
            &&& 0 <= r1.consumed <= x.len()
            &&& r_run(a, x + y, mc) == run_prepend(r1.consumed, r1.out, r_run(r1.st, x.skip(r1.consumed) + y, mc)) // @C01,C03,C04,C05,C11 reqsplit.run_is_independent_of_read_boundaries
        }),
    decreases x.len(), rank(a),
{
    let e = Seq::<u8>::empty();
    let xy = x + y;
    lemma_rrun_consumed(a, x, mc);
    if is_final(a) {
        assert(e + e =~= e);
    } else if is_partial_params(a, x) {
        assert(x.skip(0) + y =~= xy);
        let t = r_run(a, xy, mc);
        assert(e + t.out =~= t.out);
    } else {
        let sp = r_step(a, x, mc);
        lemma_step_progress(a, x, mc);
        if sp.cont && sp.consumed < x.len() {
            lemma_step_split(a, x, y, mc);
            lemma_step_progress(a, xy, mc);
            let x1 = x.skip(sp.consumed);
            assert(xy.skip(sp.consumed) =~= x1 + y);
            lemma_rrun_split(sp.st, x1, y, mc);
            let r1b = r_run(sp.st, x1, mc);
            assert(x1.skip(r1b.consumed) =~= x.skip(sp.consumed + r1b.consumed));
            let t = r_run(r1b.st, x1.skip(r1b.consumed) + y, mc);
            assert(sp.out + (r1b.out + t.out) =~= (sp.out + r1b.out) + t.out);
        } else {
            lemma_rrun_resume(a, x, y, mc);
        }
    }
}

pub open spec fn conf_prepend(out: Seq<u8>, r: RConf) -> RConf { RConf { a: r.a, u: r.u, out: out + r.out } }

pub open spec fn params_at(req: ReqAbs, carry: Seq<u8>, p: u16, q: u8, d1: Seq<u8>, c: int) -> RAbs {
    let pc = params_payload(req, carry, d1.take(c));
    RAbs::Params { req: pc.0, carry: pc.1, p: (p - c) as u16, q }
}
proof fn lemma_absorb_first_partial(req: ReqAbs, carry: Seq<u8>, p: u16, q: u8, d1: Seq<u8>, c: int, y: Seq<u8>, mc: usize)
    requires
        p > 0, d1.len() < p, 0 <= c <= d1.len(), y.len() > 0,
        (d1 + y).len() < p,
    ensures
        ecall(params_at(req, carry, p, q, d1, c), d1.skip(c) + y, mc) == ecall(RAbs::Params { req, carry, p, q }, d1 + y, mc),
{
    reveal(params_step);
    let e = Seq::<u8>::empty();
    let t = d1.take(c);
    let pc = params_payload(req, carry, t);
    let dd = d1 + y;
    let dc = d1.skip(c) + y;
    assert(t + dc =~= dd);
    assert(dd.skip(0) =~= dd);
    assert(dc.skip(0) =~= dc);
    assert(dd.take(0) =~= e);
    assert(dc.take(0) =~= e);
    lemma_pp_compose(req, carry, e, dd);
    assert(e + dd =~= dd);
    lemma_pp_compose(pc.0, pc.1, e, dc);
    assert(e + dc =~= dc);
    lemma_pp_compose(req, carry, t, dc);
}
proof fn lemma_absorb_first_full(req: ReqAbs, carry: Seq<u8>, p: u16, q: u8, d1: Seq<u8>, c: int, y: Seq<u8>, mc: usize)
    requires
        p > 0, d1.len() < p, 0 <= c <= d1.len(), y.len() > 0,
        (d1 + y).len() >= p,
    ensures
        ({
            let rr = r_run(RAbs::Params { req, carry, p, q }, d1 + y, mc);
            let rl = r_run(params_at(req, carry, p, q, d1, c), d1.skip(c) + y, mc);
            &&& rr.st == rl.st && rr.out == rl.out && rr.partial == rl.partial && rr.consumed == c + rl.consumed
            &&& 0 <= rl.consumed <= (d1.skip(c) + y).len()
        }),
{
    let a = RAbs::Params { req, carry, p, q };
    let t = d1.take(c);
    let pc = params_payload(req, carry, t);
    let pcu = (p - c) as u16;
    let ac = params_at(req, carry, p, q, d1, c);
    let dd = d1 + y;
    let dc = d1.skip(c) + y;
    assert(t + dc =~= dd);
    let pi = p as int;
    let sr = params_step(req, carry, p, q, dd, 0);
    let sl = params_step(pc.0, pc.1, pcu, q, dc, 0);
    lemma_params_decompose(req, carry, p, q, dd);
    lemma_params_decompose(pc.0, pc.1, pcu, q, dc);
    assert(dd.take(pi) =~= t + dc.take(pi - c));
    lemma_pp_compose(req, carry, t, dc.take(pi - c));
    assert(dd.skip(pi) =~= dc.skip(pi - c));
    assert(sr == shift_step(c, sl));
    lemma_step_progress(a, dd, mc);
    lemma_step_progress(ac, dc, mc);
    assert(dd.skip(sr.consumed) =~= dc.skip(sl.consumed));
    lemma_rrun_consumed(ac, dc, mc);
}

/// A partly available Params payload may be taken in up to any point c (the implementation's choice) before more bytes
/// arrive: the next call ends in the same configuration.
pub proof fn lemma_absorb_first(req: ReqAbs, carry: Seq<u8>, p: u16, q: u8, d1: Seq<u8>, c: int, y: Seq<u8>, mc: usize)
    requires
        p > 0,
        d1.len() < p,
        0 <= c <= d1.len(),
        y.len() > 0,
    ensures
        ecall(params_at(req, carry, p, q, d1, c), d1.skip(c) + y, mc) == ecall(RAbs::Params { req, carry, p, q }, d1 + y, mc), // @C01,C03 reqsplit.partial_payload_split_point_irrelevant
{
    let dd = d1 + y;
    let dc = d1.skip(c) + y;
    if dd.len() < p {
        lemma_absorb_first_partial(req, carry, p, q, d1, c, y, mc);
    } else {
        lemma_absorb_first_full(req, carry, p, q, d1, c, y, mc);
        let rr = r_run(RAbs::Params { req, carry, p, q }, dd, mc);
        let rl = r_run(params_at(req, carry, p, q, d1, c), dc, mc);
        assert(d1.take(c) + dc =~= dd);
        assert(dd.skip(rr.consumed) =~= dc.skip(rl.consumed));
    }
}

/// A call on X (with any choice c), followed by a call on what it left unread plus Y, ends where one call on X ++ Y ends.
pub proof fn lemma_call_then(a: RAbs, x: Seq<u8>, c: int, y: Seq<u8>, mc: usize)
    requires
        y.len() > 0,
    ensures
        ecall(a, x + y, mc) == conf_prepend(call(a, x, mc, c).out, ecall(call(a, x, mc, c).a, call(a, x, mc, c).u + y, mc)), // @C01,C03,C04 reqsplit.two_calls_equal_one
{
    reveal(params_step);
    let r1 = r_run(a, x, mc);
    lemma_rrun_split(a, x, y, mc);
    lemma_rrun_consumed(a, x, mc);
    let d1 = x.skip(r1.consumed);
    let r2 = r_run(r1.st, d1 + y, mc);
    lemma_rrun_consumed(r1.st, d1 + y, mc);
    assert((x + y).skip(r1.consumed + r2.consumed) =~= (d1 + y).skip(r2.consumed));
    // one call on x ++ y = the run over x, then one call from there
    assert(call(a, x + y, mc, 0) == conf_prepend(r1.out, call(r1.st, d1 + y, mc, 0)));
    if r1.partial {
        match r1.st {
            RAbs::Params { req, carry, p, q } => {
                let k = clamp(c, d1.len() as int);
                lemma_absorb_first(req, carry, p, q, d1, k, y, mc);
                assert(call(a, x, mc, c).a == params_at(req, carry, p, q, d1, k));
            },
            _ => {},
        }
    }
}

// ---- any number of reads, any choices: call after call, each on (what the previous one left unread) ++ (the next read)
pub open spec fn rfeed(a: RAbs, u: Seq<u8>, out: Seq<u8>, chunks: Seq<Seq<u8>>, cs: spec_fn(int) -> int, i: int, mc: usize) -> RConf
    decreases chunks.len(),
{
    if chunks.len() == 0 { RConf { a, u, out } } else {
        let r = call(a, u + chunks[0], mc, cs(i));
        rfeed(r.a, r.u, out + r.out, chunks.skip(1), cs, i + 1, mc)
    }
}
pub open spec fn rflat(chunks: Seq<Seq<u8>>) -> Seq<u8>
    decreases chunks.len(),
{
    if chunks.len() == 0 { Seq::<u8>::empty() } else { chunks[0] + rflat(chunks.skip(1)) }
}

/// C01 / C03, whole history: however the bytes arrive (any non-empty reads) and whatever prefix of a partly available
/// Params payload each call chooses to take in, the configuration reached -- state, unread bytes (after absorbing), and
/// the replies owed, in order -- is that of one call on all the bytes.  In particular, if one call on the whole
/// preamble ends in Done{req}, every read schedule ends in Done{req} with the same bytes left for the stream parser.
pub proof fn lemma_any_reads_any_choices(a: RAbs, u: Seq<u8>, out0: Seq<u8>, chunks: Seq<Seq<u8>>, cs: spec_fn(int) -> int, i: int, mc: usize)
    requires
        chunks.len() > 0,
        forall|k: int| 0 <= k < chunks.len() ==> (#[trigger] chunks[k]).len() > 0,
    ensures
        ({
            let f = rfeed(a, u, out0, chunks, cs, i, mc);
            let e1 = ecall(a, u + rflat(chunks), mc);
            &&& absorb(f.a, f.u) == (e1.a, e1.u) // @C01,C03,C05 reqsplit.any_reads_any_choices.state_and_unread
            &&& f.out == out0 + e1.out // @C04,C11 reqsplit.any_reads_any_choices.replies
            &&& (e1.a is Done ==> f.a == e1.a && f.u == e1.u) // @C01 reqsplit.any_reads_any_choices.same_request
        }),
    decreases chunks.len(),
{
    let e = Seq::<u8>::empty();
    let y1 = chunks[0];
    let rest = chunks.skip(1);
    let r = call(a, u + y1, mc, cs(i));
    lemma_choice_irrelevant(a, u + y1, mc, cs(i));
    if rest.len() == 0 {
        assert(rflat(rest) =~= e);
        assert(rflat(chunks) =~= y1);
        let f = rfeed(r.a, r.u, out0 + r.out, rest, cs, i + 1, mc);
        assert(f.a == r.a && f.u == r.u && f.out == out0 + r.out);
    } else {
        assert forall|k: int| 0 <= k < rest.len() implies (#[trigger] rest[k]).len() > 0 by { assert(rest[k] == chunks[k + 1]); }
        lemma_any_reads_any_choices(r.a, r.u, out0 + r.out, rest, cs, i + 1, mc);
        let yr = rflat(rest);
        assert(yr.len() > 0) by { assert(rest[0].len() > 0); }
        lemma_call_then(a, u + y1, cs(i), yr, mc);
        assert(u + rflat(chunks) =~= (u + y1) + yr);
        let e2 = ecall(r.a, r.u + yr, mc);
        assert((out0 + r.out) + e2.out =~= out0 + (r.out + e2.out));
    }
}
