// ---- spec/request_lemmas.rs : lemma layer over the Params-stream step specification (pure, machine-checked)

// The abstract Params state after the payload bytes `t_all` of the stream have been consumed (in any pieces):
// the log holds exactly the complete pairs of t_all, the carry is its undecoded rest.
pub open spec fn after_payload(req0: ReqAbs, t_all: Seq<u8>) -> (ReqAbs, Seq<u8>) {
    (ReqAbs { id: req0.id, role: req0.role, flags: req0.flags, log: req0.log + decode_pairs(t_all) }, decode_rest(t_all))
}

/// One more consumed piece: params_payload maps after_payload(T) to after_payload(T + t).
/// => however the Params payload is cut into records and the records into reads, the state after
///    consuming the bytes T depends on T only (segmentation / chunking invariance of C01).
pub proof fn lemma_payload_compose(req0: ReqAbs, t_all: Seq<u8>, t: Seq<u8>)
    ensures
        params_payload(after_payload(req0, t_all).0, after_payload(req0, t_all).1, t) == after_payload(req0, t_all + t), // @C01,C03 reqlemma.payload_compose
{
    lemma_prefix(t_all, t);
    let l0 = req0.log;
    assert((l0 + decode_pairs(t_all)) + decode_pairs(decode_rest(t_all) + t) =~= l0 + (decode_pairs(t_all) + decode_pairs(decode_rest(t_all) + t)));
}

/// concatenation of a list of pieces
pub open spec fn concat(pieces: Seq<Seq<u8>>) -> Seq<u8>
    decreases pieces.len(),
{
    if pieces.len() == 0 { Seq::<u8>::empty() } else { concat(pieces.drop_last()) + pieces.last() }
}
/// folding params_payload over a list of pieces
pub open spec fn fold_payload(req: ReqAbs, carry: Seq<u8>, pieces: Seq<Seq<u8>>) -> (ReqAbs, Seq<u8>)
    decreases pieces.len(),
{
    if pieces.len() == 0 { (req, carry) } else {
        let (r, c) = fold_payload(req, carry, pieces.drop_last());
        params_payload(r, c, pieces.last())
    }
}
/// Any segmentation: feeding the pieces one after the other = feeding their concatenation at once;
/// the environment log is exactly the pairs of the whole stream, in order.
pub proof fn lemma_any_segmentation(req0: ReqAbs, pieces: Seq<Seq<u8>>)
    ensures
        fold_payload(req0, Seq::<u8>::empty(), pieces) == after_payload(req0, concat(pieces)), // @C01,C03 reqlemma.any_segmentation
    decreases pieces.len(),
{
    reveal(pair_step);
    if pieces.len() == 0 {
        lemma_short_header(Seq::<u8>::empty());
        assert(decode_pairs(Seq::<u8>::empty()) == Seq::<(Seq<u8>, Seq<u8>)>::empty());
        assert(decode_rest(Seq::<u8>::empty()) == Seq::<u8>::empty());
        assert(req0.log + Seq::<(Seq<u8>, Seq<u8>)>::empty() =~= req0.log);
    } else {
        lemma_any_segmentation(req0, pieces.drop_last());
        lemma_payload_compose(req0, concat(pieces.drop_last()), pieces.last());
    }
}
/// Two segmentations of the same byte string give the same result.
pub proof fn lemma_segmentation_independent(req0: ReqAbs, p1: Seq<Seq<u8>>, p2: Seq<Seq<u8>>)
    requires
        concat(p1) == concat(p2),
    ensures
        fold_payload(req0, Seq::<u8>::empty(), p1) == fold_payload(req0, Seq::<u8>::empty(), p2), // @C01,C03 reqlemma.segmentation_independent
{
    lemma_any_segmentation(req0, p1);
    lemma_any_segmentation(req0, p2);
}

/// Round trip: the encodings of a list of pairs decode to exactly that list with nothing left (C16), hence a
/// Params stream that carries enc(pairs) yields the log `pairs`.
pub open spec fn enc_all(ps: Seq<(Seq<u8>, Seq<u8>)>) -> Seq<u8>
    decreases ps.len(),
{
    if ps.len() == 0 { Seq::<u8>::empty() } else { enc_pair(ps[0].0, ps[0].1) + enc_all(ps.skip(1)) }
}
pub open spec fn lens_ok(ps: Seq<(Seq<u8>, Seq<u8>)>) -> bool {
    forall|i: int| 0 <= i < ps.len() ==> (#[trigger] ps[i]).0.len() < 0x8000_0000 && ps[i].1.len() < 0x8000_0000
}
pub proof fn lemma_enc_dec(v: int)
    requires 0 <= v < 0x8000_0000,
    ensures
        dec_ok(enc(v)) && dec_len(enc(v)) == enc(v).len() && dec_val(enc(v)) == v, // @C15,C16 reqlemma.varint_roundtrip
        forall|x: Seq<u8>| dec_ok(#[trigger] (enc(v) + x)) && dec_len(enc(v) + x) == enc(v).len() && dec_val(enc(v) + x) == v,
{
    if v >= 128 {
        assert(v / 16777216 < 128) by (nonlinear_arith) requires 0 <= v < 0x8000_0000;
        assert((128 + v / 16777216 - 128) * 16777216 + (v / 65536 % 256) * 65536 + (v / 256 % 256) * 256 + v % 256 == v) by (nonlinear_arith) requires 0 <= v < 0x8000_0000;
    }
    assert forall|x: Seq<u8>| dec_ok(#[trigger] (enc(v) + x)) && dec_len(enc(v) + x) == enc(v).len() && dec_val(enc(v) + x) == v by {
        let e = enc(v);
        let ex = e + x;
        assert(ex[0] == e[0]);
        if v >= 128 { assert(ex[1] == e[1] && ex[2] == e[2] && ex[3] == e[3]); }
    }
}
#[verifier::rlimit(60)]
pub proof fn lemma_pair_roundtrip(n: Seq<u8>, v: Seq<u8>, tail: Seq<u8>)
    requires n.len() < 0x8000_0000, v.len() < 0x8000_0000,
    ensures
        pair_step(enc_pair(n, v) + tail) == Some(((enc(n.len() as int).len() + enc(v.len() as int).len()) as int, n.len() as int, v.len() as int)), // @C16 reqlemma.pair_step_of_encoding
        decode_pairs(enc_pair(n, v) + tail) == seq![(n, v)] + decode_pairs(tail), // @C16 reqlemma.pair_roundtrip
        decode_rest(enc_pair(n, v) + tail) == decode_rest(tail), // @C16 reqlemma.pair_roundtrip_rest
{
    reveal(pair_step);
    let e1 = enc(n.len() as int);
    let e2 = enc(v.len() as int);
    let s = enc_pair(n, v) + tail;
    lemma_enc_dec(n.len() as int);
    lemma_enc_dec(v.len() as int);
    assert(s =~= e1 + (e2 + n + v + tail));
    let t = s.skip(e1.len() as int);
    assert(t =~= e2 + (n + v + tail));
    let hl: int = (e1.len() + e2.len()) as int;
    let nl: int = n.len() as int;
    let vl: int = v.len() as int;
    assert(s.subrange(hl, hl + nl) =~= n);
    assert(s.subrange(hl + nl, hl + nl + vl) =~= v);
    assert(s.skip(hl + nl + vl) =~= tail);
}
pub proof fn lemma_roundtrip(ps: Seq<(Seq<u8>, Seq<u8>)>)
    requires lens_ok(ps),
    ensures
        decode_pairs(enc_all(ps)) == ps, // @C16,C01 reqlemma.roundtrip_pairs
        decode_rest(enc_all(ps)) == Seq::<u8>::empty(), // @C16,C01 reqlemma.roundtrip_nothing_left
    decreases ps.len(),
{
    if ps.len() == 0 {
        lemma_short_header(Seq::<u8>::empty());
    } else {
        let rest = ps.skip(1);
        assert forall|i: int| 0 <= i < rest.len() implies (#[trigger] rest[i]).0.len() < 0x8000_0000 && rest[i].1.len() < 0x8000_0000 by { assert(rest[i] == ps[i + 1]); }
        lemma_roundtrip(rest);
        lemma_pair_roundtrip(ps[0].0, ps[0].1, enc_all(rest));
        assert(seq![(ps[0].0, ps[0].1)] + rest =~= ps);
    }
}

/// C06: what a parser may have to retain of a well-formed Params stream is shorter than one pair:
/// if `t` is a proper prefix of enc_pair(n, v) + tail and holds no complete pair, then |t| < |enc_pair(n, v)| <= 8 + |n| + |v|.
pub proof fn lemma_incomplete_bound(n: Seq<u8>, v: Seq<u8>, tail: Seq<u8>, k: int)
    requires
        n.len() < 0x8000_0000, v.len() < 0x8000_0000,
        0 <= k <= (enc_pair(n, v) + tail).len(),
        pair_step((enc_pair(n, v) + tail).take(k)) is None,
    ensures
        k < enc_pair(n, v).len(), // @C06 reqlemma.incomplete_is_shorter_than_the_pair
        enc_pair(n, v).len() <= 8 + n.len() + v.len(), // @C06 reqlemma.pair_len_bound
{
    let s = enc_pair(n, v) + tail;
    lemma_pair_roundtrip(n, v, tail);
    let total = enc_pair(n, v).len();
    if k >= total {
        lemma_take_step(s, total as int, k);
    }
}

