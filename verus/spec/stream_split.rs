// ---- spec/stream_split.rs : read-chunking invariance of the run specification of stream::Parser::parse
// (pure, machine-checked).  Statement (C02 "however the byte stream is cut into reads", C03 "chunking invariance"):
// running over x, and then -- from the state reached, with the bytes x left unread put back in front -- over the
// following bytes y, is the run over x ++ y: same final state, same bytes delivered (in the same order, each once),
// same replies, same end-of-stream verdict, same total consumption.  `room` is the space in the caller's buffer
// (None: the internal stream buffer).

pub open spec fn room_ok(room: Option<int>) -> bool { room matches Some(k) ==> k >= 0 }
pub open spec fn same_mode_kind(a: SMode, b: SMode) -> bool {
    (a is Stream <==> b is Stream) && (a is Skip <==> b is Skip) && (a is Values <==> b is Values)
}
pub open spec fn pay_then(a: PaySpec, b: PaySpec) -> PaySpec {
    PaySpec { m: a.m + b.m, st: b.st, delivered: a.delivered + b.delivered, out: a.out + b.out, cont: b.cont }
}

pub proof fn lemma_pay_bounds(a: SAbs, d: Seq<u8>, room: Option<int>, mc: usize)
    requires room_ok(room),
    ensures
        ({
            let ps = pay_step(a, d, room, mc);
            &&& 0 <= ps.m <= d.len() && ps.m <= a.p
            &&& ps.st.p == a.p - ps.m && ps.st.q == a.q && same_mode_kind(a.mode, ps.st.mode)
            &&& ps.delivered.len() <= ps.m
            &&& (room matches Some(k) ==> ps.delivered.len() <= k)
            &&& (ps.cont ==> ps.st.p == 0 && ps.m < d.len())
            &&& (ps.st.p > 0 ==> ps.out == Seq::<u8>::empty())
        }), // @C02,C03 streamsplit.pay_bounds
{
    reveal(pay_step);
    let n = min_int(a.p as int, d.len() as int);
    lemma_rest_suffix(d.take(n));
}

/// A payload step that went on to the rest of the record sees the same thing when more bytes follow.
pub proof fn lemma_pay_cont_extend(a: SAbs, x: Seq<u8>, y: Seq<u8>, room: Option<int>, mc: usize)
    requires
        room_ok(room),
        a.p > 0,
        pay_step(a, x, room, mc).cont,
    ensures
        pay_step(a, x + y, room, mc) == pay_step(a, x, room, mc), // @C02,C03 streamsplit.pay_complete_is_stable
{
    reveal(pay_step);
    let p = a.p as int;
    assert(x.len() > p);
    assert((x + y).take(p) =~= x.take(p));
    let n = min_int(p, x.len() as int);
    let nf = min_int(p, (x + y).len() as int);
    assert(n == p && nf == p);
}

/// A payload step that had to stop (input or room exhausted), continued on the unread rest plus the following bytes,
/// is the payload step over everything at once.
pub proof fn lemma_pay_compose(a: SAbs, x: Seq<u8>, y: Seq<u8>, room: Option<int>, mc: usize)
    requires
        room_ok(room),
        a.p > 0,
        !pay_step(a, x, room, mc).cont,
    ensures
        ({
            let ps = pay_step(a, x, room, mc);
            let z = x.skip(ps.m) + y;
            let room2 = room_after(room, ps.delivered.len() as int);
            let psf = pay_step(a, x + y, room, mc);
            &&& (ps.st.p > 0 ==> psf == pay_then(ps, pay_step(ps.st, z, room2, mc))) // @C02,C03,C04 streamsplit.payload_cut_anywhere
            &&& (ps.st.p == 0 ==> psf.m == ps.m && psf.st == ps.st && psf.delivered == ps.delivered && psf.out == ps.out && psf.cont == (z.len() > 0)) // @C02,C03,C04 streamsplit.payload_complete_then_more
        }),
{
    reveal(pay_step);
    lemma_pay_bounds(a, x, room, mc);
    let ps = pay_step(a, x, room, mc);
    let z = x.skip(ps.m) + y;
    let room2 = room_after(room, ps.delivered.len() as int);
    let psf = pay_step(a, x + y, room, mc);
    let ps2 = pay_step(ps.st, z, room2, mc);
    let p = a.p as int;
    let xy = x + y;
    let n = min_int(p, x.len() as int);
    let nf = min_int(p, xy.len() as int);
    match a.mode {
        SMode::Stream => {
            if ps.st.p > 0 {
                if ps.m == x.len() {
                    assert(z =~= y);
                    assert(xy.take(psf.m) =~= x.take(ps.m) + z.take(ps2.m));
                } else {
                    // the caller's buffer is full
                    assert(room2 == Some(0int));
                    assert(ps2.m == 0);
                    assert(xy.take(psf.m) =~= x.take(ps.m) + z.take(0));
                }
                assert(psf.out =~= ps.out + ps2.out);
            } else {
                assert(ps.m == p && x.len() == p);
                assert(xy.take(p) =~= x.take(p));
            }
        },
        SMode::Skip => {
            if ps.st.p > 0 {
                assert(ps.m == x.len());
                assert(z =~= y);
                assert(psf.out =~= ps.out + ps2.out);
                assert(psf.delivered =~= ps.delivered + ps2.delivered);
            } else {
                assert(ps.m == p && x.len() == p);
            }
        },
        SMode::Values { bits } => {
            if x.len() < p {
                let chunk = x.take(n);
                assert(chunk =~= x);
                lemma_rest_suffix(x);
                assert(x.skip(ps.m) =~= decode_rest(x));
                let bits2 = vars_union(bits, decode_pairs(x));
                if xy.len() < p {
                    assert(xy.take(nf) =~= xy);
                    assert(z.len() < ps.st.p);
                    assert(z.take(min_int(ps.st.p as int, z.len() as int)) =~= z);
                    lemma_values_split(bits, x, y);
                    assert(psf.out =~= ps.out + ps2.out);
                    assert(psf.delivered =~= ps.delivered + ps2.delivered);
                } else {
                    let y1 = y.take(p - x.len());
                    assert(xy.take(nf) =~= x + y1);
                    assert(z.len() >= ps.st.p);
                    assert(z.take(min_int(ps.st.p as int, z.len() as int)) =~= decode_rest(x) + y1);
                    lemma_values_split(bits, x, y1);
                    assert(psf.out =~= ps.out + ps2.out);
                    assert(psf.delivered =~= ps.delivered + ps2.delivered);
                }
            } else {
                assert(x.len() == p);
                assert(xy.take(p) =~= x.take(p));
            }
        },
    }
}

/// A record header is its first 8 bytes.
pub proof fn lemma_head_ext(cfg: SCfg, h: Seq<u8>, y: Seq<u8>)
    requires h.len() >= 8,
    ensures head_step(cfg, h + y) == head_step(cfg, h), // @C02,C03 streamsplit.header_is_first_8_bytes
{
    reveal(head_step);
    assert((h + y).take(8) =~= h.take(8));
    assert((h + y)[2] == h[2] && (h + y)[3] == h[3] && (h + y)[4] == h[4] && (h + y)[5] == h[5] && (h + y)[6] == h[6]);
}
pub proof fn lemma_head_len(cfg: SCfg, d: Seq<u8>)
    ensures head_step(cfg, d) is Short <==> d.len() < 8,
{
    reveal(head_step);
}

/// A round that went through to the next record is unaffected by what follows it.
pub proof fn lemma_iter_extend(cfg: SCfg, a: SAbs, x: Seq<u8>, y: Seq<u8>, room: Option<int>)
    requires
        room_ok(room),
        !s_iter(cfg, a, x, room).stop,
    ensures
        s_iter(cfg, a, x + y, room) == s_iter(cfg, a, x, room), // @C02,C03 streamsplit.complete_round_is_stable
        8 <= s_iter(cfg, a, x, room).consumed <= x.len(),
        s_iter(cfg, a, x, room).err is None && !s_iter(cfg, a, x, room).end,
        room_ok(room_after(room, s_iter(cfg, a, x, room).delivered.len() as int)),
{
    let ps = pay_step(a, x, room, cfg.mc);
    lemma_pay_bounds(a, x, room, cfg.mc);
    if a.p > 0 {
        lemma_pay_cont_extend(a, x, y, room, cfg.mc);
    }
    let a1 = if a.p > 0 { ps.st } else { a };
    let c1: int = if a.p > 0 { ps.m } else { 0 };
    let d1 = x.skip(c1);
    let q = a1.q as int;
    assert((x + y).skip(c1) =~= d1 + y);
    let d2 = d1.skip(q);
    lemma_head_len(cfg, d2);
    assert((d1 + y).skip(q) =~= d2 + y);
    lemma_head_ext(cfg, d2, y);
}

/// A round that stopped inside x, continued on the unread rest of x plus y, is the round over x ++ y.
#[verifier::rlimit(100)]
pub proof fn lemma_iter_compose(cfg: SCfg, a: SAbs, x: Seq<u8>, y: Seq<u8>, room: Option<int>)
    requires
        room_ok(room),
        s_iter(cfg, a, x, room).stop,
        s_iter(cfg, a, x, room).err is None,
        0 <= s_iter(cfg, a, x, room).consumed <= x.len() ==> (x.skip(s_iter(cfg, a, x, room).consumed) + y).len() > 0,
    ensures
        ({
            let it = s_iter(cfg, a, x, room);
            let z = x.skip(it.consumed) + y;
            let room2 = room_after(room, it.delivered.len() as int);
            let it2 = s_iter(cfg, it.st, z, room2);
            let itf = s_iter(cfg, a, x + y, room);
            &&& 0 <= it.consumed <= x.len() && room_ok(room2)
            &&& itf.stop == it2.stop && itf.st == it2.st && itf.end == it2.end && itf.err == it2.err // @C02,C03,C18 streamsplit.round_resumed.state
            &&& itf.consumed == it.consumed + it2.consumed // @C02,C05 streamsplit.round_resumed.consumed
            &&& itf.delivered == it.delivered + it2.delivered // @C02 streamsplit.round_resumed.delivered
            &&& itf.out == it.out + it2.out // @C04 streamsplit.round_resumed.replies
            &&& (it.end ==> it2.stop && it2.end && it2.consumed == 0)
        }),
{
    let mc = cfg.mc;
    let it = s_iter(cfg, a, x, room);
    let ps = pay_step(a, x, room, mc);
    lemma_pay_bounds(a, x, room, mc);
    let xy = x + y;
    let e = Seq::<u8>::empty();
    if a.p > 0 && !ps.cont {
        // stopped inside the payload
        let z = x.skip(ps.m) + y;
        let room2 = room_after(room, ps.delivered.len() as int);
        lemma_pay_compose(a, x, y, room, mc);
        lemma_pay_bounds(ps.st, z, room2, mc);
        let ps2 = pay_step(ps.st, z, room2, mc);
        let psf = pay_step(a, xy, room, mc);
        if ps.st.p > 0 {
            assert(xy.skip(psf.m) =~= z.skip(ps2.m));
            let it2 = s_iter(cfg, ps.st, z, room2);
            let itf = s_iter(cfg, a, xy, room);
            assert(itf.delivered =~= it.delivered + it2.delivered);
            assert(itf.out =~= it.out + it2.out);
            assert((ps.out + ps2.out) =~= ps2.out);
        } else {
            assert(xy.skip(ps.m) =~= z);
            assert(z.skip(0) =~= z);
            let it2 = s_iter(cfg, ps.st, z, room2);
            let itf = s_iter(cfg, a, xy, room);
            assert(psf.cont);
            assert(itf.delivered =~= it.delivered + it2.delivered);
            assert(itf.out =~= it.out + it2.out);
        }
    } else {
        if a.p > 0 {
            lemma_pay_cont_extend(a, x, y, room, mc);
        }
        let a1 = if a.p > 0 { ps.st } else { a };
        let c1: int = if a.p > 0 { ps.m } else { 0 };
        let del1 = if a.p > 0 { ps.delivered } else { e };
        let out1 = if a.p > 0 { ps.out } else { e };
        let d1 = x.skip(c1);
        let q = a1.q as int;
        assert(a1.p == 0);
        assert(xy.skip(c1) =~= d1 + y);
        let room2 = room_after(room, del1.len() as int);
        if a1.q > 0 && d1.len() <= a1.q {
            // stopped inside the padding: all of x is consumed
            let st = SAbs { p: a1.p, q: (a1.q - d1.len()) as u8, mode: a1.mode };
            assert(it.st == st && it.consumed == x.len());
            let z = x.skip(it.consumed) + y;
            assert(z =~= y);
            assert(y.skip(0) =~= y);
            let it2 = s_iter(cfg, st, z, room2);
            let itf = s_iter(cfg, a, xy, room);
            let q2 = st.q as int;
            if d1.len() + y.len() > q { assert((d1 + y).skip(q) =~= y.skip(q2)); }
            assert(itf.delivered =~= it.delivered + it2.delivered);
            assert(itf.out =~= it.out + it2.out);
        } else {
            let d2 = d1.skip(q);
            let c2 = c1 + q;
            assert(it.consumed == c2);
            assert(x.skip(c2) =~= d2);
            let z = x.skip(c2) + y;
            assert((d1 + y).skip(q) =~= d2 + y);
            assert(z =~= d2 + y);
            assert(z.skip(0) =~= z);
            lemma_head_len(cfg, d2);
            lemma_head_len(cfg, z);
            if d2.len() >= 8 { lemma_head_ext(cfg, d2, y); }
            let st = SAbs { p: a1.p, q: 0, mode: a1.mode };
            assert(it.st == st);
            let it2 = s_iter(cfg, st, z, room2);
            let itf = s_iter(cfg, a, xy, room);
            assert(itf.delivered =~= it.delivered + it2.delivered);
            assert(itf.out =~= it.out + it2.out);
        }
    }
}

pub open spec fn run_then(r1: RunS, r2: RunS) -> RunS {
    RunS { st: r2.st, consumed: r1.consumed + r2.consumed, delivered: r1.delivered + r2.delivered, out: r1.out + r2.out, end: r2.end, err: r2.err }
}

/// Read-chunking invariance: for every state, every cut of the unread bytes into x ++ y (x, y arbitrary, also
/// cutting through headers, payloads, padding, or name-value pairs of a GetValues body), every room in the caller's
/// buffer: a run over x that did not fail, followed by a run over (the unread rest of x) ++ y, is the run over x ++ y.
#[verifier::rlimit(100)]
pub proof fn lemma_run_split(cfg: SCfg, a: SAbs, x: Seq<u8>, y: Seq<u8>, room: Option<int>, end: bool)
    requires
        room_ok(room),
        s_run(cfg, a, x, room, end).err is None,
    ensures
        ({
            let r1 = s_run(cfg, a, x, room, end);
            let r2 = s_run(cfg, r1.st, x.skip(r1.consumed) + y, room_after(room, r1.delivered.len() as int), r1.end);
            &&& 0 <= r1.consumed <= x.len() && room_ok(room_after(room, r1.delivered.len() as int))
            &&& s_run(cfg, a, x + y, room, end) == run_then(r1, r2) // @C02,C03,C04,C05,C18 streamsplit.run_is_independent_of_read_boundaries
        }),
    decreases x.len(),
{
    let e = Seq::<u8>::empty();
    let r1 = s_run(cfg, a, x, room, end);
    let xy = x + y;
    if x.len() == 0 {
        assert(xy =~= y);
        assert(x.skip(0) + y =~= y);
        let r2 = s_run(cfg, a, y, room, end);
        assert(e + r2.delivered =~= r2.delivered);
        assert(e + r2.out =~= r2.out);
    } else {
        let it = s_iter(cfg, a, x, room);
        if !it.stop {
            lemma_iter_extend(cfg, a, x, y, room);
            let c = it.consumed;
            let room1 = room_after(room, it.delivered.len() as int);
            let x1 = x.skip(c);
            assert(xy.skip(c) =~= x1 + y);
            lemma_run_split(cfg, it.st, x1, y, room1, end);
            let r1b = s_run(cfg, it.st, x1, room1, end);
            let room2 = room_after(room1, r1b.delivered.len() as int);
            assert(room2 == room_after(room, r1.delivered.len() as int));
            assert(x1.skip(r1b.consumed) =~= x.skip(c + r1b.consumed));
            let r2 = s_run(cfg, r1b.st, x1.skip(r1b.consumed) + y, room2, r1b.end);
            assert(it.delivered + (r1b.delivered + r2.delivered) =~= (it.delivered + r1b.delivered) + r2.delivered);
            assert(it.out + (r1b.out + r2.out) =~= (it.out + r1b.out) + r2.out);
        } else {
            lemma_run_split_stop(cfg, a, x, y, room, end);
        }
    }
}

/// (the case of lemma_run_split where the run over x ends in its first round)
#[verifier::rlimit(100)]
pub proof fn lemma_run_split_stop(cfg: SCfg, a: SAbs, x: Seq<u8>, y: Seq<u8>, room: Option<int>, end: bool)
    requires
        room_ok(room),
        x.len() > 0,
        s_iter(cfg, a, x, room).stop,
        s_iter(cfg, a, x, room).err is None,
    ensures
        ({
            let r1 = s_run(cfg, a, x, room, end);
            let r2 = s_run(cfg, r1.st, x.skip(r1.consumed) + y, room_after(room, r1.delivered.len() as int), r1.end);
            &&& 0 <= r1.consumed <= x.len() && room_ok(room_after(room, r1.delivered.len() as int))
            &&& s_run(cfg, a, x + y, room, end) == run_then(r1, r2)
        }),
{
    let e = Seq::<u8>::empty();
    let r1 = s_run(cfg, a, x, room, end);
    let xy = x + y;
    let it = s_iter(cfg, a, x, room);
    {
        {
            // the run over x ended in this round
            assert(r1.st == it.st && r1.consumed == it.consumed && r1.delivered == it.delivered && r1.out == it.out && r1.end == (end || it.end));
            lemma_pay_bounds(a, x, room, cfg.mc);
            assert(0 <= it.consumed <= x.len());
            let z = x.skip(it.consumed) + y;
            let room2 = room_after(room, it.delivered.len() as int);
            if z.len() == 0 {
                assert(xy =~= x);
                let r2 = s_run(cfg, it.st, z, room2, r1.end);
                assert(it.delivered + r2.delivered =~= it.delivered);
                assert(it.out + r2.out =~= it.out);
            } else {
                lemma_iter_compose(cfg, a, x, y, room);
                let it2 = s_iter(cfg, it.st, z, room2);
                let itf = s_iter(cfg, a, xy, room);
                if it2.stop {
                } else {
                    lemma_iter_extend(cfg, it.st, z, Seq::<u8>::empty(), room2);
                    assert(!it.end);
                    assert(xy.skip(itf.consumed) =~= z.skip(it2.consumed));
                    let roomf = room_after(room, itf.delivered.len() as int);
                    assert(roomf == room_after(room2, it2.delivered.len() as int));
                    let rr = s_run(cfg, it2.st, z.skip(it2.consumed), roomf, end);
                    assert((it.delivered + it2.delivered) + rr.delivered =~= it.delivered + (it2.delivered + rr.delivered));
                    assert((it.out + it2.out) + rr.out =~= it.out + (it2.out + rr.out));
                }
            }
        }
    }
}

// ---- any number of reads: feeding the chunks one after the other (each run starting where the previous one stopped,
// with the bytes it left unread in front) is the run over their concatenation
pub struct Fed { pub st: SAbs, pub unread: Seq<u8>, pub delivered: Seq<u8>, pub out: Seq<u8>, pub end: bool, pub ok: bool }
pub open spec fn feed(cfg: SCfg, f: Fed, chunks: Seq<Seq<u8>>) -> Fed
    decreases chunks.len(),
{
    if chunks.len() == 0 || !f.ok { f } else {
        let d = f.unread + chunks[0];
        let r = s_run(cfg, f.st, d, None, f.end);
        let c = if 0 <= r.consumed <= d.len() { r.consumed } else { 0 };
        feed(cfg, Fed { st: r.st, unread: d.skip(c), delivered: f.delivered + r.delivered, out: f.out + r.out, end: r.end, ok: r.err is None }, chunks.skip(1))
    }
}
pub open spec fn flat(chunks: Seq<Seq<u8>>) -> Seq<u8>
    decreases chunks.len(),
{
    if chunks.len() == 0 { Seq::<u8>::empty() } else { chunks[0] + flat(chunks.skip(1)) }
}
pub open spec fn fed_once(cfg: SCfg, f: Fed, all: Seq<u8>) -> Fed {
    let d = f.unread + all;
    let r = s_run(cfg, f.st, d, None, f.end);
    let c = if 0 <= r.consumed <= d.len() { r.consumed } else { 0 };
    Fed { st: r.st, unread: d.skip(c), delivered: f.delivered + r.delivered, out: f.out + r.out, end: r.end, ok: r.err is None }
}

#[verifier::rlimit(100)]
pub proof fn lemma_any_reads(cfg: SCfg, f: Fed, chunks: Seq<Seq<u8>>)
    requires
        f.ok,
        chunks.len() > 0,
        feed(cfg, f, chunks).ok,
    ensures
        feed(cfg, f, chunks) == fed_once(cfg, f, flat(chunks)), // @C02,C03,C04,C05 streamsplit.any_sequence_of_reads
    decreases chunks.len(),
{
    let e = Seq::<u8>::empty();
    let x = f.unread + chunks[0];
    let r1 = s_run(cfg, f.st, x, None, f.end);
    let rest = chunks.skip(1);
    if rest.len() == 0 {
        assert(flat(rest) =~= e);
        assert(flat(chunks) =~= chunks[0]);
    } else {
        let c = if 0 <= r1.consumed <= x.len() { r1.consumed } else { 0 };
        let f1 = Fed { st: r1.st, unread: x.skip(c), delivered: f.delivered + r1.delivered, out: f.out + r1.out, end: r1.end, ok: r1.err is None };
        lemma_feed_ok(cfg, f1, rest);
        assert(f1.ok);
        lemma_any_reads(cfg, f1, rest);
        let y = flat(rest);
        lemma_run_split(cfg, f.st, x, y, None, f.end);
        assert(c == r1.consumed);
        assert(f.unread + flat(chunks) =~= x + y);
        let d2 = x.skip(c) + y;
        let r2 = s_run(cfg, r1.st, d2, None, r1.end);
        let rf = s_run(cfg, f.st, x + y, None, f.end);
        assert(room_after(None::<int>, r1.delivered.len() as int) == None::<int>);
        assert(rf == run_then(r1, r2));
        let c2 = if 0 <= r2.consumed <= d2.len() { r2.consumed } else { 0 };
        lemma_run_consumed(cfg, r1.st, d2, None, r1.end);
        assert((x + y).skip(c + c2) =~= d2.skip(c2));
        assert((f.delivered + r1.delivered) + r2.delivered =~= f.delivered + (r1.delivered + r2.delivered));
        assert((f.out + r1.out) + r2.out =~= f.out + (r1.out + r2.out));
    }
}
// a failed run is final for feed
pub proof fn lemma_feed_ok(cfg: SCfg, f: Fed, chunks: Seq<Seq<u8>>)
    requires feed(cfg, f, chunks).ok,
    ensures f.ok,
    decreases chunks.len(),
{
    if chunks.len() == 0 || !f.ok { } else {
        let d = f.unread + chunks[0];
        let r = s_run(cfg, f.st, d, None, f.end);
        let c = if 0 <= r.consumed <= d.len() { r.consumed } else { 0 };
        lemma_feed_ok(cfg, Fed { st: r.st, unread: d.skip(c), delivered: f.delivered + r.delivered, out: f.out + r.out, end: r.end, ok: r.err is None }, chunks.skip(1));
    }
}
// a run never consumes more than it was given
pub proof fn lemma_run_consumed(cfg: SCfg, a: SAbs, d: Seq<u8>, room: Option<int>, end: bool)
    requires room_ok(room),
    ensures 0 <= s_run(cfg, a, d, room, end).consumed <= d.len(), // @C03,C05 streamsplit.run_consumes_within_input
    decreases d.len(),
{
    if d.len() > 0 {
        let it = s_iter(cfg, a, d, room);
        lemma_pay_bounds(a, d, room, cfg.mc);
        if it.stop {
        } else {
            lemma_iter_extend(cfg, a, d, Seq::<u8>::empty(), room);
            lemma_run_consumed(cfg, it.st, d.skip(it.consumed), room_after(room, it.delivered.len() as int), end);
        }
    }
}

// ---- whole records of any kind (C02 "regardless of interleaved management, unknown-type or foreign-id records",
// C04 "replies in arrival order"): data records of the active stream, skipped records (stale / foreign / unknown-type,
// some of them answered) and GetValues queries, in any order
pub open spec fn srec_ok(cfg: SCfg, r: DRec) -> bool {
    &&& r.hdr.len() == 8 && r.body.len() <= 65535 && r.pad.len() <= 255
    &&& head_step(cfg, r.hdr) matches HeadSpec::Rec { st, out }
    &&& st.p == r.body.len() && st.q == r.pad.len()
}
pub open spec fn srec_delivery(cfg: SCfg, r: DRec) -> Seq<u8> { delivery_of(rec_state(cfg, r).mode, r.body) }
// the reply owed for the record: the one its header prescribes (UnknownType, EndRequest/CantMpxConn) and, for a
// GetValues query with a non-empty body, the GetValuesResult once the body is complete
pub open spec fn srec_reply(cfg: SCfg, r: DRec) -> Seq<u8> {
    let hout = head_step(cfg, r.hdr)->Rec_out;
    match rec_state(cfg, r).mode {
        SMode::Values { bits } => if r.body.len() > 0 { hout + values_reply(vars_union(bits, decode_pairs(r.body)), cfg.mc) } else { hout },
        _ => hout,
    }
}
pub open spec fn srec_mode_after(cfg: SCfg, r: DRec) -> SMode {
    match rec_state(cfg, r).mode {
        SMode::Values { bits } => if r.body.len() > 0 { SMode::Values { bits: vars_union(bits, decode_pairs(r.body)) } } else { SMode::Values { bits } },
        m => m,
    }
}

/// The run over exactly one well-formed record of any kind, from a record boundary.
pub proof fn lemma_s_one_record(cfg: SCfg, m0: SMode, r: DRec, end: bool)
    requires
        srec_ok(cfg, r),
    ensures
        s_run(cfg, boundary_of(m0), rec_wire(r), None, end) == (RunS { st: boundary_of(srec_mode_after(cfg, r)), consumed: rec_wire(r).len() as int,
            delivered: srec_delivery(cfg, r), out: srec_reply(cfg, r), end, err: None }), // @C02,C04,C18 streamsplit.one_record
{
    reveal(pay_step);
    let e = Seq::<u8>::empty();
    let a = boundary_of(m0);
    let d = rec_wire(r);
    let bp = r.body + r.pad;
    assert(d =~= r.hdr + bp);
    assert(d.skip(0) =~= d);
    lemma_head_ext(cfg, r.hdr, bp);
    let st = rec_state(cfg, r);
    let hout = head_step(cfg, r.hdr)->Rec_out;
    let it = s_iter(cfg, a, d, None);
    assert(!it.stop && it.consumed == 8 && it.st == st && it.delivered == e && it.out =~= hout);
    assert(d.skip(8) =~= bp);
    assert(room_after(None::<int>, 0) == None::<int>);
    let r2 = s_run(cfg, st, bp, None, end);
    if bp.len() == 0 {
        assert(r2 == (RunS { st, consumed: 0, delivered: e, out: e, end, err: None }));
        assert(e + e =~= e);
        assert(hout + e =~= hout);
    } else {
        // the second round: body, padding, then no header bytes are left
        let it2 = s_iter(cfg, st, bp, None);
        let p = r.body.len() as int;
        let q = r.pad.len() as int;
        assert(bp.take(p) =~= r.body);
        assert(bp.skip(p) =~= r.pad);
        assert(r.pad.skip(q) =~= e);
        lemma_head_len(cfg, e);
        let ps = pay_step(st, bp, None, cfg.mc);
        if p > 0 {
            assert(min_int(p, bp.len() as int) == p);
        }
        assert(it2.stop && it2.consumed == p + q && it2.err is None && !it2.end);
        assert(it2.st == boundary_of(srec_mode_after(cfg, r)));
        assert(it2.delivered =~= srec_delivery(cfg, r));
        assert(hout + it2.out =~= srec_reply(cfg, r));
        assert(r2 == (RunS { st: it2.st, consumed: it2.consumed, delivered: it2.delivered, out: it2.out, end, err: None }));
        assert(e + it2.delivered =~= it2.delivered);
    }
    let full = s_run(cfg, a, d, None, end);
    assert(full == (RunS { st: r2.st, consumed: 8 + r2.consumed, delivered: it.delivered + r2.delivered, out: it.out + r2.out, end: r2.end, err: r2.err }));
    assert(full.st == boundary_of(srec_mode_after(cfg, r)));
    assert(full.delivered =~= srec_delivery(cfg, r));
    assert(full.out =~= srec_reply(cfg, r));
    assert(d.len() == 8 + bp.len());
}

pub open spec fn deliveries_all(cfg: SCfg, recs: Seq<DRec>) -> Seq<u8>
    decreases recs.len(),
{
    if recs.len() == 0 { Seq::<u8>::empty() } else { srec_delivery(cfg, recs[0]) + deliveries_all(cfg, recs.skip(1)) }
}
pub open spec fn sreplies_all(cfg: SCfg, recs: Seq<DRec>) -> Seq<u8>
    decreases recs.len(),
{
    if recs.len() == 0 { Seq::<u8>::empty() } else { srec_reply(cfg, recs[0]) + sreplies_all(cfg, recs.skip(1)) }
}
pub open spec fn mode_after_all(cfg: SCfg, m0: SMode, recs: Seq<DRec>) -> SMode {
    if recs.len() == 0 { m0 } else { srec_mode_after(cfg, recs.last()) }
}

/// C02 / C04 on the wire, any mix of records: the run over any sequence of well-formed records followed by further input
/// delivers exactly the bodies of the active stream's data records, in order, each byte once; owes exactly the replies
/// of the answered records, in arrival order; consumes every record entirely; and continues at `tail`.
pub proof fn lemma_s_records(cfg: SCfg, m0: SMode, recs: Seq<DRec>, tail: Seq<u8>, end: bool)
    requires
        forall|i: int| 0 <= i < recs.len() ==> srec_ok(cfg, #[trigger] recs[i]),
    ensures
        s_run(cfg, boundary_of(m0), wire(recs) + tail, None, end)
            == prepend(wire(recs).len() as int, deliveries_all(cfg, recs), sreplies_all(cfg, recs), s_run(cfg, boundary_of(mode_after_all(cfg, m0, recs)), tail, None, end)), // @C02,C04,C18 streamsplit.any_records_deliver_exactly_the_stream_and_owe_exactly_the_replies
    decreases recs.len(),
{
    let e = Seq::<u8>::empty();
    if recs.len() == 0 {
        let x = s_run(cfg, boundary_of(m0), tail, None, end);
        assert(wire(recs) + tail =~= tail);
        assert(e + x.delivered =~= x.delivered);
        assert(e + x.out =~= x.out);
    } else {
        let r = recs[0];
        let rest = recs.skip(1);
        let x = rec_wire(r);
        let y = wire(rest) + tail;
        assert(srec_ok(cfg, r));
        assert forall|i: int| 0 <= i < rest.len() implies srec_ok(cfg, #[trigger] rest[i]) by { assert(rest[i] == recs[i + 1]); }
        lemma_s_one_record(cfg, m0, r, end);
        lemma_run_split(cfg, boundary_of(m0), x, y, None, end);
        assert(wire(recs) + tail =~= x + y);
        assert(x.skip(x.len() as int) + y =~= y);
        assert(room_after(None::<int>, srec_delivery(cfg, r).len() as int) == None::<int>);
        let m1 = srec_mode_after(cfg, r);
        lemma_s_records(cfg, m1, rest, tail, end);
        assert(mode_after_all(cfg, m1, rest) == mode_after_all(cfg, m0, recs)) by {
            if rest.len() > 0 { assert(rest.last() == recs.last()); }
        }
        let t = s_run(cfg, boundary_of(mode_after_all(cfg, m1, rest)), tail, None, end);
        let dv = srec_delivery(cfg, r);
        let ro = srec_reply(cfg, r);
        assert(dv + (deliveries_all(cfg, rest) + t.delivered) =~= (dv + deliveries_all(cfg, rest)) + t.delivered);
        assert(ro + (sreplies_all(cfg, rest) + t.out) =~= (ro + sreplies_all(cfg, rest)) + t.out);
    }
}

/// ... followed by the stream's terminating record (or the first record of a later stream): end-of-stream is reported
/// exactly there, everything before it is consumed, the terminating header is not.
pub proof fn lemma_s_stream_until_end(cfg: SCfg, m0: SMode, recs: Seq<DRec>, tail: Seq<u8>, end: bool)
    requires
        forall|i: int| 0 <= i < recs.len() ==> srec_ok(cfg, #[trigger] recs[i]),
        head_step(cfg, tail) is Hold,
    ensures
        ({
            let r = s_run(cfg, boundary_of(m0), wire(recs) + tail, None, end);
            &&& r.delivered == deliveries_all(cfg, recs) // @C02 streamsplit.any_records.exactly_the_stream_bytes
            &&& r.end && r.err is None // @C02,C18 streamsplit.any_records.end_reported_at_terminator
            &&& r.consumed == wire(recs).len() // @C02,C05 streamsplit.any_records.terminator_not_consumed
            &&& r.out == sreplies_all(cfg, recs) // @C04 streamsplit.any_records.exactly_the_owed_replies_in_order
        }),
{
    lemma_head_len(cfg, tail);
    lemma_s_records(cfg, m0, recs, tail, end);
    lemma_hold(cfg, boundary_of(mode_after_all(cfg, m0, recs)), tail, end);
    let e = Seq::<u8>::empty();
    assert(deliveries_all(cfg, recs) + e =~= deliveries_all(cfg, recs));
    assert(sreplies_all(cfg, recs) + e =~= sreplies_all(cfg, recs));
}

/// Non-vacuity witness: for a Responder request 1 reading Stdin, a Stdin data record, an unknown-type record (answered),
/// a padded empty GetValues query and a stale Data record all satisfy srec_ok; the empty Stdin record is held back.
pub proof fn lemma_s_witness(mc: usize)
    ensures
        ({
            let cfg = SCfg { role: fcgi::Role::Responder, req_id: 1, active: Some(fcgi::RecordType::Stdin), mc };
            let data = DRec { hdr: seq![1u8, 5, 0, 1, 0, 2, 0, 0], body: seq![7u8, 8], pad: Seq::<u8>::empty() };
            let unk = DRec { hdr: seq![1u8, 77, 0, 9, 0, 1, 0, 0], body: seq![5u8], pad: Seq::<u8>::empty() };
            let gv = DRec { hdr: seq![1u8, 9, 0, 0, 0, 0, 3, 0], body: Seq::<u8>::empty(), pad: seq![0u8, 0, 0] };
            let stale = DRec { hdr: seq![1u8, 8, 0, 1, 0, 1, 0, 0], body: seq![9u8], pad: Seq::<u8>::empty() };
            &&& srec_ok(cfg, data) && srec_delivery(cfg, data) == data.body
            &&& srec_ok(cfg, unk) && srec_reply(cfg, unk) == unknown_reply(9, 77) && srec_delivery(cfg, unk) == Seq::<u8>::empty()
            &&& srec_ok(cfg, gv)
            &&& srec_ok(cfg, stale) && srec_delivery(cfg, stale) == Seq::<u8>::empty()
            &&& head_step(cfg, seq![1u8, 5, 0, 1, 0, 0, 0, 0]) is Hold
        }), // @C02,C04 streamsplit.hypotheses_are_satisfiable
{
    reveal(head_step);
    let h1 = seq![1u8, 5, 0, 1, 0, 2, 0, 0];
    assert(h1.take(8) =~= h1);
    let h2 = seq![1u8, 77, 0, 9, 0, 1, 0, 0];
    assert(h2.take(8) =~= h2);
    let h3 = seq![1u8, 9, 0, 0, 0, 0, 3, 0];
    assert(h3.take(8) =~= h3);
    let h4 = seq![1u8, 8, 0, 1, 0, 1, 0, 0];
    assert(h4.take(8) =~= h4);
    let h5 = seq![1u8, 5, 0, 1, 0, 0, 0, 0];
    assert(h5.take(8) =~= h5);
    let s = role_streams(fcgi::Role::Responder);
    assert(s[0] == fcgi::RecordType::Stdin);
}
