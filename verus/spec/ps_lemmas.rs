// ---- spec/ps_lemmas.rs : algebra behind ParamsStateInner::parse_stream (pure lemmas)
pub proof fn lemma_log_push(log: Seq<(Seq<u8>, Seq<u8>)>, x: (Seq<u8>, Seq<u8>))
    ensures log.push(x) == log + seq![x], log + Seq::<(Seq<u8>, Seq<u8>)>::empty() == log,
{
    assert(log.push(x) =~= log + seq![x]);
    assert(log + Seq::<(Seq<u8>, Seq<u8>)>::empty() =~= log);
}
pub proof fn lemma_log_assoc(a: Seq<(Seq<u8>, Seq<u8>)>, b: Seq<(Seq<u8>, Seq<u8>)>, c: Seq<(Seq<u8>, Seq<u8>)>)
    ensures (a + b) + c == a + (b + c),
{
    assert((a + b) + c =~= a + (b + c));
}
pub proof fn lemma_split_concat(b0: Seq<u8>, d0: Seq<u8>, c: int)
    requires 0 <= c <= d0.len(),
    ensures
        (b0 + d0).take(b0.len() + c) == b0 + d0.take(c),
        (b0 + d0.take(c)) + d0.skip(c) == b0 + d0,
        d0.take(c) + d0.skip(c) == d0,
        d0.take(d0.len() as int) == d0,
        d0.skip(0) == d0,
{
    assert((b0 + d0).take(b0.len() + c) =~= b0 + d0.take(c));
    assert((b0 + d0.take(c)) + d0.skip(c) =~= b0 + d0);
    assert(d0.take(c) + d0.skip(c) =~= d0);
    assert(d0.take(d0.len() as int) =~= d0);
    assert(d0.skip(0) =~= d0);
}
// the pending pair is still incomplete: nothing is decoded, everything consumed is carried
pub proof fn lemma_ps_pending(b: Seq<u8>)
    requires pair_step(b) is None,
    ensures
        decode_pairs(b) == Seq::<(Seq<u8>, Seq<u8>)>::empty(),
        decode_rest(b) == b,
{
}
// after the carried pair (if any) was completed by the first c1 bytes, the in-place pass over the
// remaining data d1 = d0.skip(c1) decodes its complete pairs and leaves rest = decode_rest(d1)
pub proof fn lemma_ps_done(b0: Seq<u8>, d0: Seq<u8>, c1: int)
    requires
        0 <= c1 <= d0.len(),
        (b0.len() == 0 && c1 == 0) || (pair_step(b0 + d0.take(c1)) matches Some(p) && pair_total(p) == (b0 + d0.take(c1)).len()),
    ensures
        ({
            let b1 = b0 + d0.take(c1);
            let d1 = d0.skip(c1);
            let rest = decode_rest(d1);
            let c2 = d1.len() - rest.len();
            &&& 0 <= c2 <= d1.len() && c1 + c2 <= d0.len()
            // the whole chunk
            &&& decode_pairs(b0 + d0) == decode_pairs(b1) + decode_pairs(d1)
            &&& decode_rest(b0 + d0) == rest
            // only the complete pairs
            &&& decode_pairs(b0 + d0.take(c1 + c2)) == decode_pairs(b1) + decode_pairs(d1)
            &&& decode_rest(b0 + d0.take(c1 + c2)) == Seq::<u8>::empty()
            &&& d0.skip(c1 + c2) == rest
            &&& pair_step(rest) is None
            &&& pair_step(Seq::<u8>::empty()) is None
            &&& Seq::<u8>::empty() + rest == rest
            &&& d0.take(c1) + (d1.take(c2) + rest) == d0
            &&& d0.take(c1 + c2) + rest == d0
            &&& (c2 == d1.len() ==> d0.take(c1 + c2) == d0)
        }),
{
    let b1 = b0 + d0.take(c1);
    let d1 = d0.skip(c1);
    let rest = decode_rest(d1);
    lemma_rest_suffix(d1);
    lemma_consumed_prefix(d1);
    let c2 = d1.len() - rest.len();
    // decode_rest(b1) is empty in both cases
    if b0.len() == 0 && c1 == 0 {
        assert(b1 =~= Seq::<u8>::empty());
        lemma_short_header(b1);
    } else {
        lemma_one_pair(b1);
    }
    assert(decode_rest(b1) == Seq::<u8>::empty());
    lemma_short_header(Seq::<u8>::empty());
    lemma_prefix(b1, d1);
    lemma_prefix(b1, d1.take(c2));
    assert(Seq::<u8>::empty() + d1 =~= d1);
    assert(Seq::<u8>::empty() + d1.take(c2) =~= d1.take(c2));
    assert(b1 + d1 =~= b0 + d0);
    assert(b1 + d1.take(c2) =~= b0 + d0.take(c1 + c2));
    assert(d0.skip(c1 + c2) =~= d1.skip(c2));
    assert(Seq::<u8>::empty() + rest =~= rest);
    assert(d0.take(c1) + (d1.take(c2) + rest) =~= d0);
    assert(d0.take(c1 + c2) + rest =~= d0);
    if c2 == d1.len() { assert(d0.take(c1 + c2) =~= d0); }
}
