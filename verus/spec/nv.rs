// ---- spec/nv.rs : name-value pair stream (specification section 3.4)
/// Some((head_len, name_len, val_len)) iff a complete pair starts at s[0].
#[verifier::opaque]
pub open spec fn pair_step(s: Seq<u8>) -> Option<(int, int, int)> {
    if !dec_ok(s) { None } else {
        let l1 = dec_len(s);
        let t = s.skip(l1);
        if !dec_ok(t) { None } else {
            let hl = l1 + dec_len(t);
            let nl = dec_val(s);
            let vl = dec_val(t);
            if hl + nl + vl <= s.len() { Some((hl, nl, vl)) } else { None }
        }
    }
}
pub open spec fn pair_total(p: (int, int, int)) -> int { p.0 + p.1 + p.2 }

pub open spec fn decode_pairs(s: Seq<u8>) -> Seq<(Seq<u8>, Seq<u8>)>
    decreases s.len()
{
    match pair_step(s) {
        None => seq![],
        Some(p) => if 2 <= pair_total(p) <= s.len() {
            seq![(s.subrange(p.0, p.0 + p.1), s.subrange(p.0 + p.1, pair_total(p)))] + decode_pairs(s.skip(pair_total(p)))
        } else { seq![] },
    }
}
pub open spec fn decode_rest(s: Seq<u8>) -> Seq<u8>
    decreases s.len()
{
    match pair_step(s) {
        None => s,
        Some(p) => if 2 <= pair_total(p) <= s.len() { decode_rest(s.skip(pair_total(p))) } else { s },
    }
}
pub open spec fn enc_pair(n: Seq<u8>, v: Seq<u8>) -> Seq<u8> { enc(n.len() as int) + enc(v.len() as int) + n + v }
