// ---- run-level specification of stream::Parser::parse (what one call does, as a function of the abstract
// state, the unread bytes and the room in the caller's buffer), written from the statements of C02/C04/C18.
pub enum SMode { Stream, Skip, Values { bits: u8 } }
pub struct SAbs { pub p: u16, pub q: u8, pub mode: SMode }
pub struct SCfg { pub role: fcgi::Role, pub req_id: u16, pub active: Option<fcgi::RecordType>, pub mc: usize }
// consuming the available part of a record's payload
pub struct PaySpec { pub m: int, pub st: SAbs, pub delivered: Seq<u8>, pub out: Seq<u8>, pub cont: bool }
#[verifier::opaque]
pub open spec fn pay_step(a: SAbs, d: Seq<u8>, room: Option<int>, mc: usize) -> PaySpec {
    let n = min_int(a.p as int, d.len() as int);
    match a.mode {
        // the active stream: bytes are delivered, as many as fit
        SMode::Stream => {
            let m = match room { Some(k) => min_int(n, k), None => n };
            PaySpec { m, st: SAbs { p: (a.p - m) as u16, q: a.q, mode: SMode::Stream }, delivered: d.take(m), out: seq![], cont: a.p - m == 0 && m < d.len() }
        },
        // any other record: dropped
        SMode::Skip => PaySpec { m: n, st: SAbs { p: (a.p - n) as u16, q: a.q, mode: SMode::Skip }, delivered: seq![], out: seq![], cont: a.p - n == 0 && n < d.len() },
        // GetValues body: complete pairs are consumed, the reply is owed exactly when the body is complete
        SMode::Values { bits } => {
            let chunk = d.take(n);
            let bits2 = vars_union(bits, decode_pairs(chunk));
            if d.len() < a.p {
                let m = n - decode_rest(chunk).len();
                PaySpec { m, st: SAbs { p: (a.p - m) as u16, q: a.q, mode: SMode::Values { bits: bits2 } }, delivered: seq![], out: seq![], cont: false }
            } else {
                PaySpec { m: n, st: SAbs { p: 0, q: a.q, mode: SMode::Values { bits: bits2 } }, delivered: seq![], out: values_reply(bits2, mc), cont: n < d.len() }
            }
        },
    }
}
// reading a record header
pub enum HeadSpec { Short, Fail { e: Error }, Hold, Rec { st: SAbs, out: Seq<u8> } }
#[verifier::opaque]
pub open spec fn head_step(cfg: SCfg, d: Seq<u8>) -> HeadSpec {
    if d.len() < 8 { HeadSpec::Short } else {
        match hdr_decode(d.take(8)) {
            Err(fcgi::Error::UnknownVersion(v)) => HeadSpec::Fail { e: Error::UnknownVersion(v) },
            Err(fcgi::Error::UnknownRecordType(t)) => HeadSpec::Rec { st: SAbs { p: fcgi::be16(d[4], d[5]), q: d[6], mode: SMode::Skip }, out: unknown_reply(fcgi::be16(d[2], d[3]), t) },
            Err(e) => HeadSpec::Fail { e: Error::Protocol(e) },
            Ok(h) => match head_action(cfg.role, cfg.req_id, cfg.active, h) {
                HeadAct::Hold => HeadSpec::Hold,
                HeadAct::Abort => HeadSpec::Fail { e: Error::AbortRequest },
                HeadAct::Stream => HeadSpec::Rec { st: SAbs { p: h.content_length, q: h.padding_length, mode: SMode::Stream }, out: seq![] },
                HeadAct::Skip => HeadSpec::Rec { st: SAbs { p: h.content_length, q: h.padding_length, mode: SMode::Skip }, out: seq![] },
                HeadAct::Values => HeadSpec::Rec { st: SAbs { p: h.content_length, q: h.padding_length, mode: SMode::Values { bits: 0 } }, out: seq![] },
                HeadAct::Mpx => HeadSpec::Rec { st: SAbs { p: h.content_length, q: h.padding_length, mode: SMode::Skip },
                    out: end_request_bytes(h.request_id, 0, fcgi::ProtocolStatus::CantMpxConn) },
            },
        }
    }
}
// one round of the parse loop: rest of the current payload, the record's padding, the next header
pub struct IterSpec { pub stop: bool, pub consumed: int, pub st: SAbs, pub delivered: Seq<u8>, pub out: Seq<u8>, pub end: bool, pub err: Option<Error> }
pub open spec fn s_iter(cfg: SCfg, a: SAbs, d: Seq<u8>, room: Option<int>) -> IterSpec {
    let ps = pay_step(a, d, room, cfg.mc);
    if a.p > 0 && !ps.cont {
        IterSpec { stop: true, consumed: ps.m, st: ps.st, delivered: ps.delivered, out: ps.out, end: false, err: None }
    } else {
        let a1 = if a.p > 0 { ps.st } else { a };
        let c1 = if a.p > 0 { ps.m } else { 0 };
        let del1 = if a.p > 0 { ps.delivered } else { seq![] };
        let out1 = if a.p > 0 { ps.out } else { seq![] };
        let d1 = d.skip(c1);
        if a1.q > 0 && d1.len() <= a1.q {
            // the padding is not complete yet: everything available is padding
            IterSpec { stop: true, consumed: c1 + d1.len(), st: SAbs { p: a1.p, q: (a1.q - d1.len()) as u8, mode: a1.mode }, delivered: del1, out: out1, end: false, err: None }
        } else {
            let a2 = SAbs { p: a1.p, q: 0, mode: a1.mode };
            let c2 = c1 + a1.q;
            match head_step(cfg, d1.skip(a1.q as int)) {
                HeadSpec::Short => IterSpec { stop: true, consumed: c2, st: a2, delivered: del1, out: out1, end: false, err: None },
                HeadSpec::Fail { e } => IterSpec { stop: true, consumed: c2, st: a2, delivered: del1, out: out1, end: false, err: Some(e) },
                HeadSpec::Hold => IterSpec { stop: true, consumed: c2, st: a2, delivered: del1, out: out1, end: true, err: None },
                HeadSpec::Rec { st, out } => IterSpec { stop: false, consumed: c2 + 8, st, delivered: del1, out: out1 + out, end: false, err: None },
            }
        }
    }
}
pub struct RunS { pub st: SAbs, pub consumed: int, pub delivered: Seq<u8>, pub out: Seq<u8>, pub end: bool, pub err: Option<Error> }
pub open spec fn room_after(room: Option<int>, used: int) -> Option<int> {
    match room { Some(k) => Some(k - used), None => None }
}
pub open spec fn s_run(cfg: SCfg, a: SAbs, d: Seq<u8>, room: Option<int>, end: bool) -> RunS
    decreases d.len(),
{
    if d.len() == 0 {
        RunS { st: a, consumed: 0, delivered: seq![], out: seq![], end, err: None }
    } else {
        let it = s_iter(cfg, a, d, room);
        if it.stop || !(0 < it.consumed <= d.len()) {
            RunS { st: it.st, consumed: it.consumed, delivered: it.delivered, out: it.out, end: end || it.end, err: it.err }
        } else {
            let r = s_run(cfg, it.st, d.skip(it.consumed), room_after(room, it.delivered.len() as int), end);
            RunS { st: r.st, consumed: it.consumed + r.consumed, delivered: it.delivered + r.delivered, out: it.out + r.out, end: r.end, err: r.err }
        }
    }
}
