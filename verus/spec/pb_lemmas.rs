// ---- spec/pb_lemmas.rs : bookkeeping lemmas for ParamsStateInner::parse_buffered.
// pb_inv(all, buf, data): the carry buffer is a prefix of `all`, the unread data the matching suffix.
// It is kept opaque in the function's proof (Seq extensionality is expensive); these lemmas are its interface.
#[verifier::opaque]
pub open spec fn pb_inv(all: Seq<u8>, buf: Seq<u8>, data: Seq<u8>) -> bool {
    buf.len() <= all.len() && buf =~= all.take(buf.len() as int) && data =~= all.skip(buf.len() as int)
}
pub proof fn lemma_pb_init(buf: Seq<u8>, data: Seq<u8>)
    ensures pb_inv(buf + data, buf, data),
{
    reveal(pb_inv);
    assert((buf + data).take(buf.len() as int) =~= buf);
    assert((buf + data).skip(buf.len() as int) =~= data);
}
pub proof fn lemma_pb_len(all: Seq<u8>, buf: Seq<u8>, data: Seq<u8>)
    requires pb_inv(all, buf, data),
    ensures buf.len() + data.len() == all.len(),
{
    reveal(pb_inv);
}
// moving the first n unread bytes to the end of the carry buffer keeps the invariant
pub proof fn lemma_pb_move(all: Seq<u8>, buf: Seq<u8>, data: Seq<u8>, n: int)
    requires pb_inv(all, buf, data), 0 <= n <= data.len(),
    ensures pb_inv(all, buf + data.take(n), data.skip(n)),
{
    reveal(pb_inv);
    assert(buf + data.take(n) =~= all.take(buf.len() + n));
    assert(data.skip(n) =~= all.skip(buf.len() + n));
}
// reading the carry buffer / the unread data = reading `all`
pub proof fn lemma_pb_views(all: Seq<u8>, buf: Seq<u8>, data: Seq<u8>)
    requires pb_inv(all, buf, data),
    ensures
        buf == all.take(buf.len() as int),
        data == all.skip(buf.len() as int),
        forall|i: int| 0 <= i < buf.len() ==> #[trigger] buf[i] == all[i],
        forall|a: int, b: int| 0 <= a <= b <= buf.len() ==> #[trigger] buf.subrange(a, b) == all.subrange(a, b),
        forall|n: int| 0 <= n <= data.len() ==> #[trigger] data.take(n) == all.subrange(buf.len() as int, buf.len() + n),
        forall|n: int| 0 <= n <= data.len() ==> #[trigger] data.skip(n) == all.skip(buf.len() + n),
{
    reveal(pb_inv);
    assert forall|a: int, b: int| 0 <= a <= b <= buf.len() implies #[trigger] buf.subrange(a, b) == all.subrange(a, b) by {
        assert(buf.subrange(a, b) =~= all.subrange(a, b));
    }
    assert forall|n: int| 0 <= n <= data.len() implies #[trigger] data.take(n) == all.subrange(buf.len() as int, buf.len() + n) by {
        assert(data.take(n) =~= all.subrange(buf.len() as int, buf.len() + n));
    }
    assert forall|n: int| 0 <= n <= data.len() implies #[trigger] data.skip(n) == all.skip(buf.len() + n) by {
        assert(data.skip(n) =~= all.skip(buf.len() + n));
    }
}
pub proof fn lemma_subrange_join(s: Seq<u8>, a: int, b: int, c: int)
    requires 0 <= a <= b <= c <= s.len(),
    ensures s.subrange(a, b) + s.subrange(b, c) == s.subrange(a, c),
{
    assert(s.subrange(a, b) + s.subrange(b, c) =~= s.subrange(a, c));
}
pub proof fn lemma_take_subrange(s: Seq<u8>, k: int, a: int, b: int)
    requires 0 <= a <= b <= k <= s.len(),
    ensures s.take(k).subrange(a, b) == s.subrange(a, b),
{
    assert(s.take(k).subrange(a, b) =~= s.subrange(a, b));
}
pub proof fn lemma_seq_empty_add(s: Seq<u8>)
    ensures Seq::<u8>::empty() + s == s, s + Seq::<u8>::empty() == s,
{
    assert(Seq::<u8>::empty() + s =~= s);
    assert(s + Seq::<u8>::empty() =~= s);
}
pub proof fn lemma_subrange_empty(s: Seq<u8>, a: int)
    requires 0 <= a <= s.len(),
    ensures s.subrange(a, a) == Seq::<u8>::empty(),
{
    assert(s.subrange(a, a) =~= Seq::<u8>::empty());
}
pub proof fn lemma_skip_take(s: Seq<u8>, a: int, n: int)
    requires 0 <= a, 0 <= n, a + n <= s.len(),
    ensures s.skip(a).take(n) == s.subrange(a, a + n), s.skip(a).skip(n) == s.skip(a + n),
{
    assert(s.skip(a).take(n) =~= s.subrange(a, a + n));
    assert(s.skip(a).skip(n) =~= s.skip(a + n));
}
pub proof fn lemma_take_all(s: Seq<u8>)
    ensures s.take(s.len() as int) == s, s.skip(0) == s,
{
    assert(s.take(s.len() as int) =~= s);
    assert(s.skip(0) =~= s);
}
pub proof fn lemma_three_piece(v: Seq<u8>, lo: int, hi: int)
    requires 0 <= lo <= hi <= v.len(),
    ensures v.subrange(0, lo) + v.subrange(lo, hi) + v.subrange(hi, v.len() as int) == v,
{
    assert(v.subrange(0, lo) + v.subrange(lo, hi) + v.subrange(hi, v.len() as int) =~= v);
}
pub proof fn lemma_pb_whole(all: Seq<u8>, buf: Seq<u8>, data: Seq<u8>)
    requires pb_inv(all, buf, data),
    ensures buf + data == all,
{
    reveal(pb_inv);
    assert(buf + data =~= all);
}
// frame bookkeeping through a chain of split_at_mut's: `cur` is the unread suffix of `d0`, and the final
// value of the original reference is the consumed prefix (unchanged) followed by the final value of `cur`.
#[verifier::opaque]
pub open spec fn frame_inv(d0: Seq<u8>, fin0: Seq<u8>, cur: Seq<u8>, cur_fin: Seq<u8>) -> bool {
    &&& cur.len() <= d0.len()
    &&& cur =~= d0.skip(d0.len() - cur.len())
    &&& fin0 =~= d0.take(d0.len() - cur.len()) + cur_fin
}
pub proof fn lemma_frame_init(d0: Seq<u8>, fin0: Seq<u8>)
    ensures frame_inv(d0, fin0, d0, fin0),
{
    reveal(frame_inv);
    assert(d0.skip(0) =~= d0);
    assert(d0.take(0) + fin0 =~= fin0);
}
pub proof fn lemma_frame_step(d0: Seq<u8>, fin0: Seq<u8>, cur: Seq<u8>, cur_fin: Seq<u8>, n: int, nxt_fin: Seq<u8>)
    requires
        frame_inv(d0, fin0, cur, cur_fin),
        0 <= n <= cur.len(),
        cur_fin == cur.take(n) + nxt_fin,
    ensures
        frame_inv(d0, fin0, cur.skip(n), nxt_fin),
{
    reveal(frame_inv);
    let k = d0.len() - cur.len();
    assert(cur.skip(n) =~= d0.skip(k + n));
    assert(d0.take(k + n) =~= d0.take(k) + cur.take(n));
    assert(d0.take(k) + (cur.take(n) + nxt_fin) =~= (d0.take(k) + cur.take(n)) + nxt_fin);
}
