// ---- spec/request_wire.rs : the specification run over whole records (pure, machine-checked).
// Statement (C01): from the boundary state inside the Params stream of request `id`, the run over any sequence of
// well-formed records -- Params data records, GetValues queries, unknown-type / stale / foreign records -- followed by
// the empty Params record ends in Done{request} whose log holds exactly the pairs of the concatenated Params payloads
// (cut into records anywhere), owing exactly the replies of the answered records, in order; and from Header, a
// BeginRequest record in front fixes id, role and flags.  With reqsplit.any_reads_any_choices this holds for every
// read schedule.

pub struct WRec { pub hdr: Seq<u8>, pub body: Seq<u8>, pub pad: Seq<u8> }
pub open spec fn wrec_wire(r: WRec) -> Seq<u8> { r.hdr + r.body + r.pad }
pub open spec fn boundary(req: ReqAbs, carry: Seq<u8>) -> RAbs { RAbs::Params { req, carry, p: 0, q: 0 } }

pub open spec fn wrec_shape(r: WRec) -> bool { r.hdr.len() == 8 && r.body.len() <= 65535 && r.pad.len() <= 255 }
// a data record of the Params stream of request `id`
pub open spec fn is_params_rec(id: u16, r: WRec) -> bool {
    &&& wrec_shape(r) && r.body.len() > 0
    &&& head_res(r.hdr) matches HeadRes::Head { h }
    &&& h.rtype is Params && h.request_id == id && h.content_length == r.body.len() && h.padding_length == r.pad.len()
}
// a GetValues query (management record)
pub open spec fn is_values_rec(r: WRec) -> bool {
    &&& wrec_shape(r) && r.body.len() + r.pad.len() > 0
    &&& head_res(r.hdr) matches HeadRes::Head { h }
    &&& h.rtype is GetValues && h.request_id == 0 && h.content_length == r.body.len() && h.padding_length == r.pad.len()
}
// a record the Params phase skips, answering it if the protocol says so: unknown type, a second BeginRequest, stale stream records, ...
pub open spec fn is_skipped_rec(id: u16, r: WRec) -> bool {
    wrec_shape(r) && match head_res(r.hdr) {
        HeadRes::Unknown { ty, id: id2, p, q } => p == r.body.len() && q == r.pad.len(),
        HeadRes::Head { h } => h.content_length == r.body.len() && h.padding_length == r.pad.len()
            && !(h.rtype is Params && h.request_id == id) && !(h.rtype is AbortRequest && h.request_id == id) && !(h.rtype is GetValues && h.request_id == 0),
        _ => false,
    }
}
pub open spec fn wrec_ok(id: u16, r: WRec) -> bool { is_params_rec(id, r) || is_values_rec(r) || is_skipped_rec(id, r) }
// what the record contributes to the Params payload / to the replies
pub open spec fn wrec_payload(id: u16, r: WRec) -> Seq<u8> { if is_params_rec(id, r) { r.body } else { Seq::<u8>::empty() } }
pub open spec fn wrec_reply(id: u16, r: WRec, mc: usize) -> Seq<u8> {
    match head_res(r.hdr) {
        HeadRes::Unknown { ty, id: id2, p, q } => unknown_reply(id2, ty),
        HeadRes::Head { h } =>
            if h.rtype is GetValues && h.request_id == 0 { if r.body.len() > 0 { values_reply(vars_union(0, decode_pairs(r.body)), mc) } else { Seq::<u8>::empty() } }
            else if h.rtype is BeginRequest && h.request_id != id { end_request_bytes(h.request_id, 0, fcgi::ProtocolStatus::CantMpxConn) }
            else { Seq::<u8>::empty() },
        _ => Seq::<u8>::empty(),
    }
}
pub open spec fn after_rec(req: ReqAbs, carry: Seq<u8>, r: WRec) -> (ReqAbs, Seq<u8>) {
    if is_params_rec(req.id, r) { params_payload(req, carry, r.body) } else { (req, carry) }
}

/// The run over exactly one well-formed record, from a record boundary inside the Params stream.
pub proof fn lemma_one_record(req: ReqAbs, carry: Seq<u8>, r: WRec, mc: usize)
    requires
        wrec_ok(req.id, r),
    ensures
        r_run(boundary(req, carry), wrec_wire(r), mc) == (RunSpec { st: boundary(after_rec(req, carry, r).0, after_rec(req, carry, r).1),
            consumed: wrec_wire(r).len() as int, out: wrec_reply(req.id, r, mc), partial: false }), // @C01,C04 reqwire.one_record
{
    reveal(params_head);
    reveal(params_tail);
    reveal(skip_step);
    reveal(values_step);
    let e = Seq::<u8>::empty();
    let a = boundary(req, carry);
    let d = wrec_wire(r);
    let p = r.body.len() as u16;
    let q = r.pad.len() as u8;
    let bp = r.body + r.pad;
    assert(d =~= r.hdr + bp);
    lemma_params_decompose(req, carry, 0, 0, d);
    assert(d.skip(0) =~= d);
    lemma_head_res_ext(r.hdr, bp);
    let s1 = r_step(a, d, mc);
    assert(s1.cont && s1.consumed == 8);
    assert(d.skip(8) =~= bp);
    assert(bp.take(p as int) =~= r.body);
    assert(bp.skip(p as int) =~= r.pad);
    assert(r.pad.skip(q as int) =~= e);
    let want_st = boundary(after_rec(req, carry, r).0, after_rec(req, carry, r).1);
    if bp.len() > 0 {
        let s2 = r_step(s1.st, bp, mc);
        let r2 = r_run(s1.st, bp, mc);
        assert(!is_final(s1.st) && !is_partial_params(s1.st, bp));
        if is_params_rec(req.id, r) {
            lemma_params_decompose(req, carry, p, q, bp);
            assert(s2.st == want_st && s2.consumed == bp.len() && s2.out == e);
        } else if is_values_rec(r) {
            assert(bp.take(min_int(bp.len() as int, p as int)) =~= r.body);
            assert(s2.st == want_st && s2.consumed == bp.len() && s2.cont);
        } else {
            assert(s2.st == want_st && s2.consumed == bp.len() && s2.out == e && s2.cont);
        }
        assert(r2 == (RunSpec { st: s2.st, consumed: s2.consumed, out: s2.out, partial: false }));
        assert(s1.out + s2.out =~= wrec_reply(req.id, r, mc));
        assert(r_run(a, d, mc) == (RunSpec { st: r2.st, consumed: 8 + r2.consumed, out: s1.out + r2.out, partial: r2.partial }));
    } else {
        assert(s1.st == want_st);
        assert(d.len() == 8);
    }
}

// the empty Params record that ends the stream
pub open spec fn is_term_rec(id: u16, r: WRec) -> bool {
    &&& wrec_shape(r) && r.body.len() == 0
    &&& head_res(r.hdr) matches HeadRes::Head { h }
    &&& h.rtype is Params && h.request_id == id && h.content_length == 0 && h.padding_length == r.pad.len()
}
pub proof fn lemma_terminator(req: ReqAbs, carry: Seq<u8>, r: WRec, mc: usize)
    requires
        is_term_rec(req.id, r),
    ensures
        r_run(boundary(req, carry), wrec_wire(r), mc) == (RunSpec { st: RAbs::Done { req }, consumed: wrec_wire(r).len() as int, out: Seq::<u8>::empty(), partial: false }), // @C01 reqwire.empty_params_record_completes_the_request
{
    reveal(params_head);
    reveal(params_tail);
    reveal(skip_step);
    let e = Seq::<u8>::empty();
    let a = boundary(req, carry);
    let d = wrec_wire(r);
    let q = r.pad.len() as u8;
    assert(d =~= r.hdr + r.pad);
    lemma_params_decompose(req, carry, 0, 0, d);
    assert(d.skip(0) =~= d);
    lemma_head_res_ext(r.hdr, r.pad);
    let s1 = r_step(a, d, mc);
    assert(s1.cont && s1.consumed == 8 && s1.out == e);
    assert(d.skip(8) =~= r.pad);
    if r.pad.len() > 0 {
        let s2 = r_step(s1.st, r.pad, mc);
        let r2 = r_run(s1.st, r.pad, mc);
        assert(!is_final(s1.st) && !is_partial_params(s1.st, r.pad));
        assert(s2.cont && s2.consumed == r.pad.len() && s2.out == e && s2.st == (RAbs::Done { req }));
        assert(r2 == (RunSpec { st: s2.st, consumed: s2.consumed, out: s2.out, partial: false }));
        assert(e + e =~= e);
        assert(r_run(a, d, mc) == (RunSpec { st: r2.st, consumed: 8 + r2.consumed, out: s1.out + r2.out, partial: r2.partial }));
    } else {
        assert(s1.st == (RAbs::Done { req }));
    }
}

// the BeginRequest record (16 bytes: header + body) and its padding
pub open spec fn is_begin(b: Seq<u8>, pad: Seq<u8>, id: u16, role: fcgi::Role, flags: u8) -> bool {
    &&& b.len() == 16 && pad.len() <= 255 && id != 0
    &&& head_res(b) matches HeadRes::Head { h }
    &&& h.rtype is BeginRequest && h.request_id == id && h.content_length == 8 && h.padding_length == pad.len()
    &&& fcgi::begin_decode(b.subrange(8, 16)) matches Ok(bb)
    &&& bb.role == role && bb.flags.bits == flags
}
pub proof fn lemma_begin(b: Seq<u8>, pad: Seq<u8>, id: u16, role: fcgi::Role, flags: u8, mc: usize)
    requires
        is_begin(b, pad, id, role, flags),
    ensures
        r_run(RAbs::Header, b + pad, mc) == (RunSpec { st: boundary(ReqAbs { id, role, flags, log: Seq::<(Seq<u8>, Seq<u8>)>::empty() }, Seq::<u8>::empty()),
            consumed: (16 + pad.len()) as int, out: Seq::<u8>::empty(), partial: false }), // @C01 reqwire.begin_request_fixes_id_role_flags
{
    reveal(header_step);
    reveal(params_head);
    reveal(params_tail);
    let e = Seq::<u8>::empty();
    let d = b + pad;
    lemma_head_res_ext(b, pad);
    assert(d.subrange(8, 16) =~= b.subrange(8, 16));
    let s1 = r_step(RAbs::Header, d, mc);
    assert(s1.cont && s1.consumed == 16 && s1.out == e);
    let req0 = ReqAbs { id, role, flags, log: Seq::<(Seq<u8>, Seq<u8>)>::empty() };
    assert(s1.st == (RAbs::Params { req: req0, carry: e, p: 0, q: pad.len() as u8 }));
    assert(d.skip(16) =~= pad);
    if pad.len() > 0 {
        lemma_params_decompose(req0, e, 0, pad.len() as u8, pad);
        assert(pad.skip(0) =~= pad);
        let s2 = r_step(s1.st, pad, mc);
        let r2 = r_run(s1.st, pad, mc);
        assert(!is_final(s1.st) && !is_partial_params(s1.st, pad));
        assert(!s2.cont && s2.consumed == pad.len() && s2.out == e && s2.st == boundary(req0, e));
        assert(r2 == (RunSpec { st: s2.st, consumed: s2.consumed, out: s2.out, partial: false }));
        assert(e + e =~= e);
        assert(r_run(RAbs::Header, d, mc) == (RunSpec { st: r2.st, consumed: 16 + r2.consumed, out: s1.out + r2.out, partial: r2.partial }));
    }
}

// ---- a whole sequence of records
pub open spec fn wire_all(recs: Seq<WRec>) -> Seq<u8>
    decreases recs.len(),
{
    if recs.len() == 0 { Seq::<u8>::empty() } else { wrec_wire(recs[0]) + wire_all(recs.skip(1)) }
}
pub open spec fn payload_all(id: u16, recs: Seq<WRec>) -> Seq<u8>
    decreases recs.len(),
{
    if recs.len() == 0 { Seq::<u8>::empty() } else { wrec_payload(id, recs[0]) + payload_all(id, recs.skip(1)) }
}
pub open spec fn replies_all(id: u16, recs: Seq<WRec>, mc: usize) -> Seq<u8>
    decreases recs.len(),
{
    if recs.len() == 0 { Seq::<u8>::empty() } else { wrec_reply(id, recs[0], mc) + replies_all(id, recs.skip(1), mc) }
}
pub open spec fn after_all(req: ReqAbs, carry: Seq<u8>, recs: Seq<WRec>) -> (ReqAbs, Seq<u8>)
    decreases recs.len(),
{
    if recs.len() == 0 { (req, carry) } else { let (r2, c2) = after_rec(req, carry, recs[0]); after_all(r2, c2, recs.skip(1)) }
}
pub proof fn lemma_after_all(req: ReqAbs, carry: Seq<u8>, recs: Seq<WRec>)
    requires
        carry_ok(carry),
    ensures
        after_all(req, carry, recs) == params_payload(req, carry, payload_all(req.id, recs)), // @C01 reqwire.log_is_pairs_of_concatenated_payloads
    decreases recs.len(),
{
    let e = Seq::<u8>::empty();
    if recs.len() == 0 {
        lemma_carry_empty(req, carry);
    } else {
        let r = recs[0];
        let (r2, c2) = after_rec(req, carry, r);
        if is_params_rec(req.id, r) {
            lemma_rest_suffix(carry + r.body);
            lemma_after_all(r2, c2, recs.skip(1));
            lemma_pp_compose(req, carry, r.body, payload_all(req.id, recs.skip(1)));
        } else {
            lemma_after_all(req, carry, recs.skip(1));
            assert(e + payload_all(req.id, recs.skip(1)) =~= payload_all(req.id, recs.skip(1)));
        }
    }
}

pub proof fn lemma_records_run(req: ReqAbs, carry: Seq<u8>, recs: Seq<WRec>, tail: Seq<u8>, mc: usize)
    requires
        forall|i: int| 0 <= i < recs.len() ==> wrec_ok(req.id, #[trigger] recs[i]),
        tail.len() > 0,
    ensures
        r_run(boundary(req, carry), wire_all(recs) + tail, mc) == run_prepend(wire_all(recs).len() as int, replies_all(req.id, recs, mc),
            r_run(boundary(after_all(req, carry, recs).0, after_all(req, carry, recs).1), tail, mc)), // @C01,C04 reqwire.records_run
        after_all(req, carry, recs).0.id == req.id,
    decreases recs.len(),
{
    let e = Seq::<u8>::empty();
    if recs.len() == 0 {
        assert(wire_all(recs) + tail =~= tail);
        let t = r_run(boundary(req, carry), tail, mc);
        assert(e + t.out =~= t.out);
    } else {
        let r = recs[0];
        let rest = recs.skip(1);
        let x = wrec_wire(r);
        let y = wire_all(rest) + tail;
        assert(wrec_ok(req.id, r));
        assert forall|i: int| 0 <= i < rest.len() implies wrec_ok(req.id, #[trigger] rest[i]) by { assert(rest[i] == recs[i + 1]); }
        lemma_one_record(req, carry, r, mc);
        lemma_rrun_split(boundary(req, carry), x, y, mc);
        assert(wire_all(recs) + tail =~= x + y);
        assert(x.skip(x.len() as int) + y =~= y);
        let (r2, c2) = after_rec(req, carry, r);
        assert(r2.id == req.id);
        lemma_records_run(r2, c2, rest, tail, mc);
        let t = r_run(boundary(after_all(r2, c2, rest).0, after_all(r2, c2, rest).1), tail, mc);
        assert(wrec_reply(req.id, r, mc) + (replies_all(req.id, rest, mc) + t.out) =~= (wrec_reply(req.id, r, mc) + replies_all(req.id, rest, mc)) + t.out);
    }
}

/// C01 on the wire: BeginRequest, any well-formed records, the empty Params record -- one call ends in Done with exactly
/// the id, role and flags sent and the pairs of the concatenated Params payloads (however that payload is cut into
/// records, whatever padding each carries), owing exactly the replies of the answered records, everything consumed.
pub proof fn lemma_preamble(b: Seq<u8>, bpad: Seq<u8>, recs: Seq<WRec>, term: WRec, id: u16, role: fcgi::Role, flags: u8, mc: usize)
    requires
        is_begin(b, bpad, id, role, flags),
        forall|i: int| 0 <= i < recs.len() ==> wrec_ok(id, #[trigger] recs[i]),
        is_term_rec(id, term),
    ensures
        ({
            let wire = (b + bpad) + (wire_all(recs) + wrec_wire(term));
            r_run(RAbs::Header, wire, mc) == (RunSpec {
                st: RAbs::Done { req: ReqAbs { id, role, flags, log: decode_pairs(payload_all(id, recs)) } },
                consumed: wire.len() as int, out: replies_all(id, recs, mc), partial: false })
        }), // @C01,C04 reqwire.preamble_yields_exactly_the_request_sent
{
    let e = Seq::<u8>::empty();
    let el = Seq::<(Seq<u8>, Seq<u8>)>::empty();
    let x = b + bpad;
    let tw = wrec_wire(term);
    let y = wire_all(recs) + tw;
    let req0 = ReqAbs { id, role, flags, log: el };
    lemma_begin(b, bpad, id, role, flags, mc);
    assert(tw.len() >= 8);
    lemma_rrun_split(RAbs::Header, x, y, mc);
    assert(x.skip(x.len() as int) + y =~= y);
    lemma_records_run(req0, e, recs, tw, mc);
    let (r2, c2) = after_all(req0, e, recs);
    lemma_terminator(r2, c2, term, mc);
    lemma_short_header(e);
    lemma_after_all(req0, e, recs);
    assert(e + payload_all(id, recs) =~= payload_all(id, recs));
    assert(el + decode_pairs(payload_all(id, recs)) =~= decode_pairs(payload_all(id, recs)));
    assert(e + (replies_all(id, recs, mc) + e) =~= replies_all(id, recs, mc));
}

/// ... and so does every read schedule: any non-empty reads whose concatenation is that wire image, any choices.
pub proof fn lemma_preamble_any_reads(b: Seq<u8>, bpad: Seq<u8>, recs: Seq<WRec>, term: WRec, id: u16, role: fcgi::Role, flags: u8,
                                      chunks: Seq<Seq<u8>>, cs: spec_fn(int) -> int, mc: usize)
    requires
        is_begin(b, bpad, id, role, flags),
        forall|i: int| 0 <= i < recs.len() ==> wrec_ok(id, #[trigger] recs[i]),
        is_term_rec(id, term),
        chunks.len() > 0,
        forall|k: int| 0 <= k < chunks.len() ==> (#[trigger] chunks[k]).len() > 0,
        rflat(chunks) == (b + bpad) + (wire_all(recs) + wrec_wire(term)),
    ensures
        ({
            let f = rfeed(RAbs::Header, Seq::<u8>::empty(), Seq::<u8>::empty(), chunks, cs, 0, mc);
            &&& f.a == (RAbs::Done { req: ReqAbs { id, role, flags, log: decode_pairs(payload_all(id, recs)) } }) // @C01 reqwire.any_read_schedule_yields_the_request_sent
            &&& f.u == Seq::<u8>::empty() // @C05 reqwire.any_read_schedule_consumes_exactly_the_preamble
            &&& f.out == replies_all(id, recs, mc) // @C04 reqwire.any_read_schedule_owes_exactly_the_replies
        }),
{
    let e = Seq::<u8>::empty();
    let wire = (b + bpad) + (wire_all(recs) + wrec_wire(term));
    lemma_preamble(b, bpad, recs, term, id, role, flags, mc);
    lemma_any_reads_any_choices(RAbs::Header, e, e, chunks, cs, 0, mc);
    assert(e + wire =~= wire);
    assert(wire.skip(wire.len() as int) =~= e);
    let o = replies_all(id, recs, mc);
    assert(e + o =~= o);
}

/// Non-vacuity witness: a concrete preamble (request 1, Responder, keep-conn flag; one Params record `\x01\x01AB`,
/// one unknown-type record, the terminator) satisfies the hypotheses of lemma_preamble.
pub proof fn lemma_wire_witness()
    ensures
        ({
            let b = seq![1u8, 1, 0, 1, 0, 8, 0, 0, 0, 1, 1, 0, 0, 0, 0, 0];
            let prm = WRec { hdr: seq![1u8, 4, 0, 1, 0, 4, 2, 0], body: seq![1u8, 1, 65, 66], pad: seq![0u8, 0] };
            let unk = WRec { hdr: seq![1u8, 77, 0, 9, 0, 1, 0, 0], body: seq![5u8], pad: Seq::<u8>::empty() };
            let term = WRec { hdr: seq![1u8, 4, 0, 1, 0, 0, 0, 0], body: Seq::<u8>::empty(), pad: Seq::<u8>::empty() };
            &&& is_begin(b, Seq::<u8>::empty(), 1, fcgi::Role::Responder, 1)
            &&& is_params_rec(1, prm) && wrec_ok(1, prm)
            &&& is_skipped_rec(1, unk) && wrec_ok(1, unk) && wrec_reply(1, unk, 10) == unknown_reply(9, 77)
            &&& is_term_rec(1, term)
        }), // @C01 reqwire.hypotheses_are_satisfiable
{
    let b = seq![1u8, 1, 0, 1, 0, 8, 0, 0, 0, 1, 1, 0, 0, 0, 0, 0];
    assert(b.take(8) =~= seq![1u8, 1, 0, 1, 0, 8, 0, 0]);
    assert(b.subrange(8, 16) =~= seq![0u8, 1, 1, 0, 0, 0, 0, 0]);
    let h1 = seq![1u8, 4, 0, 1, 0, 4, 2, 0];
    assert(h1.take(8) =~= h1);
    let h2 = seq![1u8, 77, 0, 9, 0, 1, 0, 0];
    assert(h2.take(8) =~= h2);
    let h3 = seq![1u8, 4, 0, 1, 0, 0, 0, 0];
    assert(h3.take(8) =~= h3);
}

/// C05 at the request-to-stream hand-off: whatever follows the preamble on the connection (the request's input streams,
/// further requests) is left exactly as it is -- the run stops at the end of the empty Params record, the state is
/// Done, and the unread bytes are exactly `rest`, however much look-ahead was already buffered.
pub proof fn lemma_preamble_leaves_rest(b: Seq<u8>, bpad: Seq<u8>, recs: Seq<WRec>, term: WRec, id: u16, role: fcgi::Role, flags: u8, rest: Seq<u8>, mc: usize)
    requires
        is_begin(b, bpad, id, role, flags),
        forall|i: int| 0 <= i < recs.len() ==> wrec_ok(id, #[trigger] recs[i]),
        is_term_rec(id, term),
    ensures
        ({
            let wire = (b + bpad) + (wire_all(recs) + wrec_wire(term));
            let r = r_run(RAbs::Header, wire + rest, mc);
            &&& r.st == (RAbs::Done { req: ReqAbs { id, role, flags, log: decode_pairs(payload_all(id, recs)) } }) // @C05,C01 reqwire.look_ahead_does_not_change_the_request
            &&& r.consumed == wire.len() && (wire + rest).skip(r.consumed) == rest // @C05 reqwire.bytes_after_the_preamble_are_left_unread
            &&& r.out == replies_all(id, recs, mc) && !r.partial // @C04,C05 reqwire.look_ahead_adds_no_reply
        }),
{
    let e = Seq::<u8>::empty();
    let wire = (b + bpad) + (wire_all(recs) + wrec_wire(term));
    lemma_preamble(b, bpad, recs, term, id, role, flags, mc);
    if rest.len() == 0 {
        assert(wire + rest =~= wire);
        assert(wire.skip(wire.len() as int) =~= rest);
    } else {
        lemma_rrun_split(RAbs::Header, wire, rest, mc);
        assert(wire.skip(wire.len() as int) + rest =~= rest);
        assert((wire + rest).skip(wire.len() as int) =~= rest);
        let o = replies_all(id, recs, mc);
        assert(o + e =~= o);
    }
}
