// ---- spec/stream_lemmas.rs : lemma layer over the run specification of stream::Parser::parse (pure, machine-checked)
// Statement (C02, whole records, internal stream buffer): running over  body ++ padding ++ rest  from the state right
// after a record header delivers exactly the body (if the record belongs to the active stream, nothing if it is
// skipped), consumes body and padding, and continues with `rest` from the record boundary.

pub open spec fn prepend(consumed: int, delivered: Seq<u8>, out: Seq<u8>, r: RunS) -> RunS {
    RunS { st: r.st, consumed: consumed + r.consumed, delivered: delivered + r.delivered, out: out + r.out, end: r.end, err: r.err }
}
pub open spec fn boundary_of(mode: SMode) -> SAbs { SAbs { p: 0, q: 0, mode } }
pub open spec fn delivery_of(mode: SMode, body: Seq<u8>) -> Seq<u8> { if mode is Stream { body } else { Seq::<u8>::empty() } }

pub proof fn lemma_record_body(cfg: SCfg, mode: SMode, body: Seq<u8>, pad: Seq<u8>, rest: Seq<u8>, end: bool)
    requires
        mode is Stream || mode is Skip,
        0 < body.len() <= 65535,
        pad.len() <= 255,
        rest.len() > 0,
    ensures
        s_run(cfg, SAbs { p: body.len() as u16, q: pad.len() as u8, mode }, body + pad + rest, None, end)
            == prepend((body.len() + pad.len()) as int, delivery_of(mode, body), Seq::<u8>::empty(), s_run(cfg, boundary_of(mode), rest, None, end)), // @C02,C18 streamlemma.record_body
{
    reveal(pay_step);
    let p = body.len() as int;
    let q = pad.len() as int;
    let a = SAbs { p: body.len() as u16, q: pad.len() as u8, mode };
    let d = body + pad + rest;
    let b = boundary_of(mode);
    assert(d.take(p) =~= body);
    assert(d.skip(p) =~= pad + rest);
    assert((pad + rest).skip(q) =~= rest);
    assert(d.skip(p).skip(q) =~= rest);
    assert(rest.skip(0) =~= rest);
    let it = s_iter(cfg, a, d, None);
    let it2 = s_iter(cfg, b, rest, None);
    let e = Seq::<u8>::empty();
    assert(delivery_of(mode, body) + e =~= delivery_of(mode, body));
    assert(e + it2.out =~= it2.out);
    assert(e + it2.delivered =~= it2.delivered);
    // the round starting at `a` is the round starting at the boundary, shifted by body and padding
    assert(it.stop == it2.stop && it.st == it2.st && it.end == it2.end && it.err == it2.err);
    assert(it.consumed == p + q + it2.consumed);
    assert(it.delivered =~= delivery_of(mode, body) + it2.delivered);
    assert(it.out =~= it2.out);
    if !it.stop && 0 < it.consumed <= d.len() {
        assert(d.skip(it.consumed) =~= rest.skip(it2.consumed));
        let x = s_run(cfg, it.st, d.skip(it.consumed), None, end);
        assert(room_after(None::<int>, it.delivered.len() as int) == None::<int>);
        assert(room_after(None::<int>, it2.delivered.len() as int) == None::<int>);
        assert((delivery_of(mode, body) + it2.delivered) + x.delivered =~= delivery_of(mode, body) + (it2.delivered + x.delivered));
        assert(e + (it2.out + x.out) =~= it2.out + x.out);
    } else {
        assert(e + it2.out =~= it2.out);
    }
}

/// Entering a record: a header that head_step accepts is consumed (8 bytes), its reply (if any) is owed, and the
/// run continues in the state the header prescribes.
pub proof fn lemma_record_header(cfg: SCfg, a: SAbs, d: Seq<u8>, end: bool)
    requires
        a.p == 0 && a.q == 0,
        head_step(cfg, d) is Rec,
    ensures
        s_run(cfg, a, d, None, end)
            == prepend(8, Seq::<u8>::empty(), head_step(cfg, d)->Rec_out, s_run(cfg, head_step(cfg, d)->Rec_st, d.skip(8), None, end)), // @C02,C04 streamlemma.record_header
{
    reveal(head_step);
    reveal(pay_step);
    assert(d.len() >= 8);
    assert(d.skip(0) =~= d);
    let it = s_iter(cfg, a, d, None);
    let e = Seq::<u8>::empty();
    assert(e + head_step(cfg, d)->Rec_out =~= head_step(cfg, d)->Rec_out);
    assert(room_after(None::<int>, it.delivered.len() as int) == None::<int>);
    let x = s_run(cfg, it.st, d.skip(8), None, end);
    assert(e + x.delivered =~= x.delivered);
}

/// A held-back header (empty record of the active stream, or the first record of a later stream) ends the run:
/// nothing is consumed, end-of-stream is reported.
pub proof fn lemma_hold(cfg: SCfg, a: SAbs, d: Seq<u8>, end: bool)
    requires
        a.p == 0 && a.q == 0,
        head_step(cfg, d) is Hold,
    ensures
        s_run(cfg, a, d, None, end) == (RunS { st: a, consumed: 0, delivered: Seq::<u8>::empty(), out: Seq::<u8>::empty(), end: true, err: None }), // @C02,C18 streamlemma.hold_ends_stream
{
    reveal(head_step);
    reveal(pay_step);
    assert(d.len() >= 8);
    assert(d.skip(0) =~= d);
}

// ---- a whole sequence of data records (of the active stream, or skipped ones), fed at once

pub struct DRec { pub hdr: Seq<u8>, pub body: Seq<u8>, pub pad: Seq<u8> }
pub open spec fn rec_wire(r: DRec) -> Seq<u8> { r.hdr + r.body + r.pad }
pub open spec fn wire(recs: Seq<DRec>) -> Seq<u8>
    decreases recs.len(),
{
    if recs.len() == 0 { Seq::<u8>::empty() } else { rec_wire(recs[0]) + wire(recs.skip(1)) }
}
// the state the header of `r` puts the parser in (head_step only looks at the 8 header bytes)
pub open spec fn rec_state(cfg: SCfg, r: DRec) -> SAbs { head_step(cfg, r.hdr)->Rec_st }
// `r` is a well-formed data record for this request: 8-byte header accepted as a record of the active stream or as a
// record to skip, without a reply, announcing exactly the body and padding that follow
pub open spec fn rec_ok(cfg: SCfg, r: DRec) -> bool {
    &&& r.hdr.len() == 8 && 0 < r.body.len() <= 65535 && r.pad.len() <= 255
    &&& head_step(cfg, r.hdr) matches HeadSpec::Rec { st, out }
    &&& out == Seq::<u8>::empty() && st.p == r.body.len() && st.q == r.pad.len() && (st.mode is Stream || st.mode is Skip)
}
// what the active stream's reader must see: the bodies of the records of the active stream, in order
pub open spec fn stream_bytes(cfg: SCfg, recs: Seq<DRec>) -> Seq<u8>
    decreases recs.len(),
{
    if recs.len() == 0 { Seq::<u8>::empty() } else { delivery_of(rec_state(cfg, recs[0]).mode, recs[0].body) + stream_bytes(cfg, recs.skip(1)) }
}
pub open spec fn last_mode(cfg: SCfg, m0: SMode, recs: Seq<DRec>) -> SMode {
    if recs.len() == 0 { m0 } else { rec_state(cfg, recs.last()).mode }
}

pub proof fn lemma_head_prefix(cfg: SCfg, h: Seq<u8>, x: Seq<u8>)
    requires h.len() == 8,
    ensures head_step(cfg, h + x) == head_step(cfg, h), // @C02 streamlemma.header_is_8_bytes
{
    reveal(head_step);
    assert((h + x).take(8) =~= h);
    assert(h.take(8) =~= h);
    assert((h + x)[2] == h[2] && (h + x)[3] == h[3] && (h + x)[4] == h[4] && (h + x)[5] == h[5] && (h + x)[6] == h[6]);
}

/// C02 for whole records and the internal stream buffer: the run over any sequence of well-formed data records
/// followed by further input delivers exactly the concatenation of the active stream's record bodies, in order,
/// each byte once; every record is consumed entirely (header, body, padding); the run continues at `tail`.
pub proof fn lemma_records(cfg: SCfg, m0: SMode, recs: Seq<DRec>, tail: Seq<u8>, end: bool)
    requires
        forall|i: int| 0 <= i < recs.len() ==> rec_ok(cfg, #[trigger] recs[i]),
        tail.len() > 0,
    ensures
        s_run(cfg, boundary_of(m0), wire(recs) + tail, None, end)
            == prepend(wire(recs).len() as int, stream_bytes(cfg, recs), Seq::<u8>::empty(), s_run(cfg, boundary_of(last_mode(cfg, m0, recs)), tail, None, end)), // @C02,C18 streamlemma.records_deliver_exactly_the_stream
    decreases recs.len(),
{
    let e = Seq::<u8>::empty();
    if recs.len() == 0 {
        let x = s_run(cfg, boundary_of(m0), tail, None, end);
        assert(wire(recs) + tail =~= tail);
        assert(e + x.delivered =~= x.delivered);
        assert(e + x.out =~= x.out);
    } else {
        let r = recs[0];
        let rest = recs.skip(1);
        let st = rec_state(cfg, r);
        let after = wire(rest) + tail;
        let d = wire(recs) + tail;
        assert(rec_ok(cfg, r));
        assert forall|i: int| 0 <= i < rest.len() implies rec_ok(cfg, #[trigger] rest[i]) by { assert(rest[i] == recs[i + 1]); }
        assert(d =~= r.hdr + (r.body + r.pad + after));
        lemma_head_prefix(cfg, r.hdr, r.body + r.pad + after);
        lemma_record_header(cfg, boundary_of(m0), d, end);
        assert(d.skip(8) =~= r.body + r.pad + after);
        lemma_record_body(cfg, st.mode, r.body, r.pad, after, end);
        lemma_records(cfg, st.mode, rest, tail, end);
        let x = s_run(cfg, boundary_of(last_mode(cfg, st.mode, rest)), tail, None, end);
        assert(last_mode(cfg, st.mode, rest) == last_mode(cfg, m0, recs)) by {
            if rest.len() > 0 { assert(rest.last() == recs.last()); }
        }
        assert(wire(recs).len() == 8 + r.body.len() + r.pad.len() + wire(rest).len());
        let dv = delivery_of(st.mode, r.body);
        assert(e + (dv + (stream_bytes(cfg, rest) + x.delivered)) =~= (dv + stream_bytes(cfg, rest)) + x.delivered);
        assert(e + (e + (e + x.out)) =~= e + x.out);
    }
}

/// ... and when those records are followed by the stream's terminating empty record (or the first record of a later
/// stream), end-of-stream is reported exactly there: everything before it is consumed, the terminating header is not.
pub proof fn lemma_stream_until_end(cfg: SCfg, m0: SMode, recs: Seq<DRec>, tail: Seq<u8>, end: bool)
    requires
        forall|i: int| 0 <= i < recs.len() ==> rec_ok(cfg, #[trigger] recs[i]),
        head_step(cfg, tail) is Hold,
    ensures
        ({
            let r = s_run(cfg, boundary_of(m0), wire(recs) + tail, None, end);
            &&& r.delivered == stream_bytes(cfg, recs) // @C02 streamlemma.exactly_the_stream_bytes
            &&& r.end && r.err is None // @C02,C18 streamlemma.end_reported_at_terminator
            &&& r.consumed == wire(recs).len() // @C02,C05 streamlemma.terminator_not_consumed
            &&& r.out == Seq::<u8>::empty() // @C04 streamlemma.no_reply_for_data_records
        }),
{
    reveal(head_step);
    assert(tail.len() >= 8);
    lemma_records(cfg, m0, recs, tail, end);
    lemma_hold(cfg, boundary_of(last_mode(cfg, m0, recs)), tail, end);
    let e = Seq::<u8>::empty();
    assert(stream_bytes(cfg, recs) + e =~= stream_bytes(cfg, recs));
    assert(e + e =~= e);
}
