// ---- spec/nv_lemmas.rs : laws of the name-value decoder (pure lemmas over spec/nv.rs), C16 / C01
pub proof fn lemma_step_bounds(s: Seq<u8>)
    ensures
        pair_step(s) matches Some(p) ==> p.0 >= 2 && p.1 >= 0 && p.2 >= 0 && pair_total(p) <= s.len() && pair_total(p) >= 2, // @C16 nv.lemma.step_bounds
{
    reveal(pair_step);
}

/// A complete pair at the front of `a` is the same complete pair at the front of `a + b`.
pub proof fn lemma_step_extend(a: Seq<u8>, b: Seq<u8>)
    requires
        pair_step(a) is Some,
    ensures
        pair_step(a + b) == pair_step(a), // @C16 nv.lemma.step_extend
{
    reveal(pair_step);
    let ab = a + b;
    assert(ab[0] == a[0]);
    let l1 = dec_len(a);
    assert(dec_len(ab) == l1);
    assert forall|i: int| 0 <= i < a.len() implies ab[i] == a[i] by {}
    let ta = a.skip(l1);
    let tab = ab.skip(l1);
    assert(tab =~= ta + b);
    assert(tab[0] == ta[0]);
    assert forall|i: int| 0 <= i < ta.len() implies tab[i] == ta[i] by {}
}

/// Prefix monotonicity (the law both resumable parsers rely on).
pub proof fn lemma_prefix(a: Seq<u8>, b: Seq<u8>)
    ensures
        decode_pairs(a + b) == decode_pairs(a) + decode_pairs(decode_rest(a) + b), // @C16,C01 nv.lemma.prefix_pairs
        decode_rest(a + b) == decode_rest(decode_rest(a) + b), // @C16,C01 nv.lemma.prefix_rest
    decreases a.len(),
{
    reveal(pair_step);
    lemma_step_bounds(a);
    match pair_step(a) {
        None => {
            assert(decode_pairs(a) == Seq::<(Seq<u8>, Seq<u8>)>::empty());
            assert(decode_rest(a) == a);
            assert(decode_pairs(a) + decode_pairs(a + b) =~= decode_pairs(a + b));
        },
        Some(p) => {
            lemma_step_extend(a, b);
            let t = pair_total(p);
            let ab = a + b;
            assert(ab.skip(t) =~= a.skip(t) + b);
            lemma_prefix(a.skip(t), b);
            assert(ab.subrange(p.0, p.0 + p.1) =~= a.subrange(p.0, p.0 + p.1));
            assert(ab.subrange(p.0 + p.1, t) =~= a.subrange(p.0 + p.1, t));
            let first = seq![(a.subrange(p.0, p.0 + p.1), a.subrange(p.0 + p.1, t))];
            assert(decode_pairs(ab) == first + decode_pairs(ab.skip(t)));
            assert(decode_pairs(a) == first + decode_pairs(a.skip(t)));
            assert(decode_rest(a) == decode_rest(a.skip(t)));
            assert(first + (decode_pairs(a.skip(t)) + decode_pairs(decode_rest(a.skip(t)) + b))
                =~= (first + decode_pairs(a.skip(t))) + decode_pairs(decode_rest(a.skip(t)) + b));
        },
    }
}

/// The undecoded rest is a suffix of the input and decoding is fused (nothing decodable is left).
pub proof fn lemma_rest_suffix(s: Seq<u8>)
    ensures
        decode_rest(s).len() <= s.len(), // @C16 nv.lemma.rest_len
        decode_rest(s) == s.skip(s.len() - decode_rest(s).len()), // @C16 nv.lemma.rest_is_suffix
        pair_step(decode_rest(s)) is None, // @C16,C06 nv.lemma.fused
        decode_pairs(decode_rest(s)) == Seq::<(Seq<u8>, Seq<u8>)>::empty(), // @C16 nv.lemma.fused_pairs
    decreases s.len(),
{
    reveal(pair_step);
    lemma_step_bounds(s);
    match pair_step(s) {
        None => {
            assert(s.skip(0) =~= s);
        },
        Some(p) => {
            let t = pair_total(p);
            let u = s.skip(t);
            lemma_rest_suffix(u);
            assert(u.skip(u.len() - decode_rest(u).len()) =~= s.skip(s.len() - decode_rest(s).len()));
        },
    }
}

/// The consumed prefix (input minus the undecoded rest) consists of exactly the complete pairs.
pub proof fn lemma_consumed_prefix(s: Seq<u8>)
    ensures
        decode_rest(s).len() <= s.len(),
        decode_pairs(s.take(s.len() - decode_rest(s).len())) == decode_pairs(s), // @C16,C01 nv.lemma.consumed_prefix_pairs
        decode_rest(s.take(s.len() - decode_rest(s).len())) == Seq::<u8>::empty(), // @C16,C01 nv.lemma.consumed_prefix_rest
    decreases s.len(),
{
    reveal(pair_step);
    lemma_step_bounds(s);
    lemma_rest_suffix(s);
    let k = s.len() - decode_rest(s).len();
    let pre = s.take(k);
    match pair_step(s) {
        None => {
            assert(pre =~= Seq::<u8>::empty());
            assert(pair_step(pre) is None);
        },
        Some(p) => {
            let t = pair_total(p);
            let u = s.skip(t);
            lemma_consumed_prefix(u);
            lemma_rest_suffix(u);
            assert(decode_rest(s) == decode_rest(u));
            assert(k >= t);
            lemma_take_step(s, t, k);
            assert(pair_step(pre) == Some(p));
            assert(pre.skip(t) =~= u.take(k - t));
            assert(pre.subrange(p.0, p.0 + p.1) =~= s.subrange(p.0, p.0 + p.1));
            assert(pre.subrange(p.0 + p.1, t) =~= s.subrange(p.0 + p.1, t));
        },
    }
}

/// If a complete pair of total length t starts `s`, it also starts every prefix of `s` of length >= t.
pub proof fn lemma_take_step(s: Seq<u8>, t: int, k: int)
    requires
        pair_step(s) matches Some(p) && pair_total(p) == t,
        t <= k <= s.len(),
    ensures
        pair_step(s.take(k)) == pair_step(s), // @C16 nv.lemma.take_step
{
    reveal(pair_step);
    let pre = s.take(k);
    lemma_step_bounds(s);
    let l1 = dec_len(s);
    assert(pre[0] == s[0]);
    assert forall|i: int| 0 <= i < k implies pre[i] == s[i] by {}
    let ts = s.skip(l1);
    let tp = pre.skip(l1);
    assert(tp[0] == ts[0]);
    assert forall|i: int| 0 <= i < tp.len() implies tp[i] == ts[i] by {}
}

/// A buffer holding exactly one complete pair decodes to that pair and nothing else.
pub proof fn lemma_one_pair(b: Seq<u8>)
    requires
        pair_step(b) matches Some(p) && pair_total(p) == b.len(),
    ensures
        decode_pairs(b) == seq![(b.subrange(pair_step(b)->Some_0.0, pair_step(b)->Some_0.0 + pair_step(b)->Some_0.1),
                                 b.subrange(pair_step(b)->Some_0.0 + pair_step(b)->Some_0.1, b.len() as int))], // @C16,C01 nv.lemma.one_pair
        decode_rest(b) == Seq::<u8>::empty(), // @C16,C01 nv.lemma.one_pair_rest
{
    reveal(pair_step);
    lemma_step_bounds(b);
    let p = pair_step(b)->Some_0;
    let e = b.skip(b.len() as int);
    assert(e =~= Seq::<u8>::empty());
    assert(pair_step(e) is None);
    assert(decode_pairs(e) == Seq::<(Seq<u8>, Seq<u8>)>::empty());
    assert(decode_rest(e) == e);
}

/// The number of pairs never exceeds len / 2 (size_hint upper bound).
pub proof fn lemma_count(s: Seq<u8>)
    ensures
        decode_pairs(s).len() * 2 <= s.len(), // @C16 nv.lemma.count
    decreases s.len(),
{
    reveal(pair_step);
    lemma_step_bounds(s);
    match pair_step(s) {
        None => {},
        Some(p) => { lemma_count(s.skip(pair_total(p))); },
    }
}

/// The length header of a pair lives in its first bytes: if `h` is a prefix of `b` that contains both
/// length prefixes, `b` holds a complete pair iff it is long enough, with the lengths read from `h`.
pub proof fn lemma_pair_from_header(h: Seq<u8>, b: Seq<u8>)
    requires
        h.len() <= b.len(),
        b.take(h.len() as int) == h,
        dec_ok(h),
        dec_ok(h.skip(dec_len(h))),
    ensures
        ({
            let l1 = dec_len(h);
            let hl = l1 + dec_len(h.skip(l1));
            let nl = dec_val(h);
            let vl = dec_val(h.skip(l1));
            pair_step(b) == (if hl + nl + vl <= b.len() { Some((hl, nl, vl)) } else { None::<(int, int, int)> })
        }), // @C16,C01 nv.lemma.pair_from_header
{
    reveal(pair_step);
    let l1 = dec_len(h);
    assert forall|i: int| 0 <= i < h.len() implies b[i] == h[i] by { assert(b.take(h.len() as int)[i] == h[i]); }
    assert(b[0] == h[0]);
    let th = h.skip(l1);
    let tb = b.skip(l1);
    assert(tb[0] == th[0]);
    assert forall|i: int| 0 <= i < th.len() implies tb[i] == th[i] by {}
}

/// Fewer bytes than the two length prefixes need: no complete pair.
pub proof fn lemma_short_header(b: Seq<u8>)
    requires
        b.len() == 0 || b.len() < dec_len(b) + 1 || b.len() < dec_len(b) + dec_len(b.skip(dec_len(b))),
    ensures
        pair_step(b) is None, // @C16,C06 nv.lemma.short_header
{
    reveal(pair_step);
}
