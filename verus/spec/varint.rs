// ---- spec/varint.rs : FastCGI variable-length integer (specification section 3.4)
pub open spec fn dec_len(s: Seq<u8>) -> int { if s.len() == 0 { 0 } else if s[0] < 128 { 1 } else { 4 } }
pub open spec fn dec_ok(s: Seq<u8>) -> bool { s.len() >= 1 && s.len() >= dec_len(s) }
pub open spec fn dec_val(s: Seq<u8>) -> int {
    if s[0] < 128 { s[0] as int } else { ((s[0] as int - 128) * 16777216) + s[1] as int * 65536 + s[2] as int * 256 + s[3] as int }
}
pub open spec fn enc(v: int) -> Seq<u8>
    recommends 0 <= v < 0x8000_0000
{
    if v < 128 { seq![v as u8] }
    else { seq![(128 + v / 16777216) as u8, (v / 65536 % 256) as u8, (v / 256 % 256) as u8, (v % 256) as u8] }
}
