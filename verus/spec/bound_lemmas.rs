// ---- spec/bound_lemmas.rs : C06 sufficiency -- what has to stay buffered of a well-formed Params payload is shorter
// than one encoded pair (pure, machine-checked)
pub open spec fn sizes_ok(ps: Seq<(Seq<u8>, Seq<u8>)>, m: int) -> bool {
    forall|i: int| 0 <= i < ps.len() ==> (#[trigger] ps[i]).0.len() + ps[i].1.len() <= m
}

/// a proper prefix of one encoded pair holds no complete pair
pub proof fn lemma_proper_prefix_incomplete(n: Seq<u8>, v: Seq<u8>, tail: Seq<u8>, k: int)
    requires
        n.len() < 0x8000_0000, v.len() < 0x8000_0000,
        0 <= k < enc_pair(n, v).len(),
    ensures
        pair_step((enc_pair(n, v) + tail).take(k)) is None, // @C06 reqlemma.proper_prefix_of_a_pair_is_incomplete
{
    let s = enc_pair(n, v) + tail;
    let x = s.take(k);
    if pair_step(x) is Some {
        lemma_step_bounds(x);
        lemma_step_extend(x, s.skip(k));
        assert(x + s.skip(k) =~= s);
        lemma_pair_roundtrip(n, v, tail);
        assert(enc_pair(n, v).len() == enc(n.len() as int).len() + enc(v.len() as int).len() + n.len() + v.len());
    }
}

/// Whatever prefix X of a well-formed Params payload has been seen, the part of it that cannot be decoded yet
/// (decode_rest(X): the incomplete last pair) is shorter than one encoded pair: < 8 + max(|name| + |value|).
pub proof fn lemma_retained_bound(ps: Seq<(Seq<u8>, Seq<u8>)>, k: int, m: int)
    requires
        lens_ok(ps),
        sizes_ok(ps, m),
        m >= 0,
        0 <= k <= enc_all(ps).len(),
    ensures
        decode_rest(enc_all(ps).take(k)).len() < 8 + m, // @C06 reqlemma.retained_is_shorter_than_one_pair
    decreases ps.len(),
{
    let e = Seq::<u8>::empty();
    if ps.len() == 0 {
        assert(enc_all(ps).take(k) =~= e);
        lemma_short_header(e);
    } else {
        let (n, v) = ps[0];
        let rest = ps.skip(1);
        let pe = enc_pair(n, v);
        let tail = enc_all(rest);
        assert(ps[0].0.len() + ps[0].1.len() <= m);
        assert(pe.len() == enc(n.len() as int).len() + enc(v.len() as int).len() + n.len() + v.len());
        assert(pe.len() <= 8 + n.len() + v.len());
        if k < pe.len() {
            lemma_proper_prefix_incomplete(n, v, tail, k);
        } else {
            assert forall|i: int| 0 <= i < rest.len() implies (#[trigger] rest[i]).0.len() < 0x8000_0000 && rest[i].1.len() < 0x8000_0000 by { assert(rest[i] == ps[i + 1]); }
            assert forall|i: int| 0 <= i < rest.len() implies (#[trigger] rest[i]).0.len() + rest[i].1.len() <= m by { assert(rest[i] == ps[i + 1]); }
            let k2 = k - pe.len();
            assert((pe + tail).take(k) =~= pe + tail.take(k2));
            lemma_pair_roundtrip(n, v, tail.take(k2));
            lemma_retained_bound(rest, k2, m);
        }
    }
}

/// C06 sufficiency: the Params payload of a well-formed preamble whose pairs satisfy |name| + |value| <= m has been
/// seen up to some point (consumed ++ unread); the parser carries decode_rest(consumed) and left `unread` in its input
/// buffer because no complete pair can be formed (the maximal-consumption clauses request.*.waits_only_if_incomplete).
/// Then the unread bytes are fewer than 8 + m.  With m <= B - 13 that is at most B - 6: the input buffer (B bytes)
/// is never full, so StuckOnInput is not entered.
pub proof fn lemma_unread_bound(ps: Seq<(Seq<u8>, Seq<u8>)>, m: int, k: int, consumed: Seq<u8>, unread: Seq<u8>, b: int)
    requires
        lens_ok(ps),
        sizes_ok(ps, m),
        m >= 0,
        0 <= k <= enc_all(ps).len(),
        enc_all(ps).take(k) == consumed + unread,
        pair_step(decode_rest(consumed) + unread) is None,
    ensures
        unread.len() < 8 + m, // @C06 reqlemma.unread_payload_never_fills_a_sufficient_buffer
        m <= b - 13 ==> unread.len() < b - 5, // @C06 reqlemma.documented_bound_suffices
{
    lemma_prefix(consumed, unread);
    lemma_retained_bound(ps, k, m);
    let arg = decode_rest(consumed) + unread;
    assert(decode_rest(arg) == arg);
}
