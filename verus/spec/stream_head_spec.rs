// ---- spec/stream_head_spec.rs : stream order, acceptable selections and the meaning of a record header (C02/C04/C11/C18)
// order comparison written from the statement of C18: position in the role's stream order;
// `None` (no active stream) is after everything, a type outside the role is before everything.
pub open spec fn stream_cmp(role: fcgi::Role, recv: fcgi::RecordType, exp: Option<fcgi::RecordType>) -> Ordering {
    match exp {
        None => Ordering::Less,
        Some(e) => {
            if recv == e { Ordering::Equal }
            else if stream_pos(role, recv) < 0 { Ordering::Less }
            else if stream_pos(role, recv) < stream_pos(role, e) { Ordering::Less }
            else if stream_pos(role, e) < 0 { Ordering::Less }
            else { Ordering::Greater }
        },
    }
}
// C18: a selection is acceptable iff it is `none`, or an input stream type of the role that is not
// earlier than the active stream (once the active stream is `none`, nothing else is acceptable).
pub open spec fn select_ok(role: fcgi::Role, active: Option<fcgi::RecordType>, req: Option<fcgi::RecordType>) -> bool {
    match req {
        None => true,
        Some(s) => s.is_input_stream_spec() && !(stream_cmp(role, s, active) is Less),
    }
}
// What a record header means for a request with the given role / id / active stream.
// Written from the statements of C02, C04, C11, C18 (not from parse_head).
pub enum HeadAct { Stream, Skip, Values, Hold, Abort, Mpx }
pub open spec fn head_action(role: fcgi::Role, req_id: u16, active: Option<fcgi::RecordType>, h: fcgi::RecordHeader) -> HeadAct {
    if h.rtype.is_input_stream_spec() && h.request_id == req_id {
        match stream_cmp(role, h.rtype, active) {
            // record of the active stream: data, or the empty terminating record
            Ordering::Equal => if h.content_length != 0 { HeadAct::Stream } else { HeadAct::Hold },
            // earlier stream, stream outside the role, or no active stream any more: skipped
            Ordering::Less => HeadAct::Skip,
            // first record of a later stream: held back
            Ordering::Greater => HeadAct::Hold,
        }
    } else if h.rtype is AbortRequest && h.request_id == req_id { HeadAct::Abort }
    else if h.rtype is BeginRequest && h.request_id != req_id { HeadAct::Mpx }
    else if h.rtype is GetValues && h.request_id == 0 { HeadAct::Values }
    else { HeadAct::Skip }
}
