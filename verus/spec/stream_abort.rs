// ---- spec/stream_abort.rs : C11 on the wire, stream-parser half (pure, machine-checked).
// Statement: an AbortRequest header for the request being served, met at a record boundary, ends the run with
// Error::AbortRequest; nothing of it is consumed (so every later call meets it again and fails the same way until the
// parser is converted), nothing is delivered or owed for it.  Preceded by any well-formed records, the bytes delivered
// before the error are exactly the bodies of the active stream's records sent before the abort -- a prefix of what the
// client sent for that stream -- and the replies owed are exactly those of the answered records before it.  An
// AbortRequest for any other id is a skipped record: no error, no reply, nothing delivered.

pub open spec fn is_abort_head(cfg: SCfg, d: Seq<u8>) -> bool {
    &&& d.len() >= 8
    &&& hdr_decode(d.take(8)) matches Ok(h)
    &&& h.rtype is AbortRequest && h.request_id == cfg.req_id
}

pub proof fn lemma_abort_head_fails(cfg: SCfg, d: Seq<u8>)
    requires
        is_abort_head(cfg, d),
    ensures
        head_step(cfg, d) == (HeadSpec::Fail { e: Error::AbortRequest }), // @C11 streamabort.abort_header_for_this_request_is_the_abort_error
{
    reveal(head_step);
}

/// At a record boundary the abort header stops the run: error AbortRequest, nothing consumed, nothing delivered or owed.
pub proof fn lemma_abort_stops(cfg: SCfg, a: SAbs, d: Seq<u8>, end: bool)
    requires
        a.p == 0 && a.q == 0,
        is_abort_head(cfg, d),
    ensures
        s_run(cfg, a, d, None, end) == (RunS { st: a, consumed: 0, delivered: Seq::<u8>::empty(), out: Seq::<u8>::empty(), end, err: Some(Error::AbortRequest) }), // @C11 streamabort.abort_reported_header_kept
{
    lemma_abort_head_fails(cfg, d);
    reveal(pay_step);
    assert(d.skip(0) =~= d);
}

/// Any well-formed records, then the abort (with whatever follows it: its body, padding, further records).
pub proof fn lemma_stream_until_abort(cfg: SCfg, m0: SMode, recs: Seq<DRec>, tail: Seq<u8>, end: bool)
    requires
        forall|i: int| 0 <= i < recs.len() ==> srec_ok(cfg, #[trigger] recs[i]),
        is_abort_head(cfg, tail),
    ensures
        ({
            let r = s_run(cfg, boundary_of(m0), wire(recs) + tail, None, end);
            &&& r.err == Some(Error::AbortRequest) // @C11 streamabort.any_records.abort_reported
            &&& r.delivered == deliveries_all(cfg, recs) // @C11,C02 streamabort.any_records.delivered_is_exactly_the_stream_before_the_abort
            &&& r.consumed == wire(recs).len() // @C11,C05 streamabort.any_records.abort_header_not_consumed
            &&& r.out == sreplies_all(cfg, recs) // @C11,C04 streamabort.any_records.no_reply_for_the_abort
            &&& r.end == end
        }),
{
    lemma_s_records(cfg, m0, recs, tail, end);
    lemma_abort_stops(cfg, boundary_of(mode_after_all(cfg, m0, recs)), tail, end);
    let e = Seq::<u8>::empty();
    assert(deliveries_all(cfg, recs) + e =~= deliveries_all(cfg, recs));
    assert(sreplies_all(cfg, recs) + e =~= sreplies_all(cfg, recs));
}

/// An AbortRequest for another request id is an ordinary skipped record: accepted by srec_ok, nothing delivered, no reply.
pub proof fn lemma_foreign_abort_is_skipped(cfg: SCfg, r: DRec)
    requires
        r.hdr.len() == 8 && r.body.len() <= 65535 && r.pad.len() <= 255,
        ({
            &&& hdr_decode(r.hdr.take(8)) matches Ok(h)
            &&& h.rtype is AbortRequest && h.request_id != cfg.req_id && h.content_length == r.body.len() && h.padding_length == r.pad.len()
        }),
    ensures
        srec_ok(cfg, r) && srec_delivery(cfg, r) == Seq::<u8>::empty() && srec_reply(cfg, r) == Seq::<u8>::empty(), // @C11 streamabort.abort_for_another_id_is_skipped
        rec_state(cfg, r).mode is Skip,
{
    reveal(head_step);
}

/// Non-vacuity: `01 02 00 01 00 02 03 00` is an abort header for request 1 and a foreign one for request 2.
pub proof fn lemma_sabort_witness(mc: usize)
    ensures
        ({
            let h = seq![1u8, 2, 0, 1, 0, 2, 3, 0];
            let c1 = SCfg { role: fcgi::Role::Responder, req_id: 1, active: Some(fcgi::RecordType::Stdin), mc };
            let c2 = SCfg { role: fcgi::Role::Responder, req_id: 2, active: Some(fcgi::RecordType::Stdin), mc };
            is_abort_head(c1, h) && !is_abort_head(c2, h)
        }), // @C11 streamabort.hypotheses_are_satisfiable
{
    let h = seq![1u8, 2, 0, 1, 0, 2, 3, 0];
    assert(h.take(8) =~= h);
}
