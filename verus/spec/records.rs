// ---- spec/records.rs : wire format of records, written from the FastCGI specification (section 3.3, 8)
pub open spec fn rtype_of(b: u8) -> Option<RecordType> {
    if b == 1 { Some(RecordType::BeginRequest) }
    else if b == 2 { Some(RecordType::AbortRequest) }
    else if b == 3 { Some(RecordType::EndRequest) }
    else if b == 4 { Some(RecordType::Params) }
    else if b == 5 { Some(RecordType::Stdin) }
    else if b == 6 { Some(RecordType::Stdout) }
    else if b == 7 { Some(RecordType::Stderr) }
    else if b == 8 { Some(RecordType::Data) }
    else if b == 9 { Some(RecordType::GetValues) }
    else if b == 10 { Some(RecordType::GetValuesResult) }
    else if b == 11 { Some(RecordType::Unknown) }
    else { None }
}
pub open spec fn rtype_code(t: RecordType) -> u8 {
    match t {
        RecordType::BeginRequest => 1, RecordType::AbortRequest => 2, RecordType::EndRequest => 3,
        RecordType::Params => 4, RecordType::Stdin => 5, RecordType::Stdout => 6, RecordType::Stderr => 7,
        RecordType::Data => 8, RecordType::GetValues => 9, RecordType::GetValuesResult => 10,
        RecordType::Unknown => 11,
    }
}
pub open spec fn be16(a: u8, b: u8) -> u16 { (a as int * 256 + b as int) as u16 }
pub open spec fn hi8(v: u16) -> u8 { (v as int / 256) as u8 }
pub open spec fn lo8(v: u16) -> u8 { (v as int % 256) as u8 }

// decode of an 8-byte header: version is checked first, then the type
pub open spec fn hdr_decode(s: Seq<u8>) -> Result<RecordHeader, Error>
    recommends s.len() == 8
{
    if s[0] != 1 { Err(Error::UnknownVersion(s[0])) }
    else if rtype_of(s[1]) is None { Err(Error::UnknownRecordType(s[1])) }
    else { Ok(RecordHeader { version: Version::V1, rtype: rtype_of(s[1])->Some_0,
        request_id: be16(s[2], s[3]), content_length: be16(s[4], s[5]), padding_length: s[6] }) }
}
pub open spec fn hdr_bytes(t: RecordType, id: u16, clen: u16, plen: u8) -> Seq<u8> {
    seq![1u8, rtype_code(t), hi8(id), lo8(id), hi8(clen), lo8(clen), plen, 0u8]
}
// FCGI_UnknownTypeBody reply: type 11, echoing the request id of the offending record
pub open spec fn unknown_reply(id: u16, ty: u8) -> Seq<u8> {
    hdr_bytes(RecordType::Unknown, id, 8, 0) + seq![ty, 0u8, 0u8, 0u8, 0u8, 0u8, 0u8, 0u8]
}
pub open spec fn status_code(st: ProtocolStatus) -> u8 {
    match st { ProtocolStatus::RequestComplete => 0, ProtocolStatus::CantMpxConn => 1,
               ProtocolStatus::Overloaded => 2, ProtocolStatus::UnknownRole => 3 }
}
pub open spec fn be32_bytes(v: u32) -> Seq<u8> {
    seq![(v as int / 16777216) as u8, (v as int / 65536 % 256) as u8, (v as int / 256 % 256) as u8, (v as int % 256) as u8]
}
// FCGI_EndRequest record for request `id`
pub open spec fn end_request_bytes(id: u16, app: u32, st: ProtocolStatus) -> Seq<u8> {
    hdr_bytes(RecordType::EndRequest, id, 8, 0) + be32_bytes(app) + seq![status_code(st), 0u8, 0u8, 0u8]
}
// FCGI_BeginRequestBody: role (big-endian u16), flags byte (all bits retained), 5 reserved bytes
pub open spec fn role_of(v: u16) -> Option<Role> {
    if v == 1 { Some(Role::Responder) } else if v == 2 { Some(Role::Authorizer) } else if v == 3 { Some(Role::Filter) } else { None }
}
pub open spec fn begin_decode(s: Seq<u8>) -> Result<body::BeginRequest, Error>
    recommends s.len() == 8
{
    match role_of(be16(s[0], s[1])) {
        Some(r) => Ok(body::BeginRequest { role: r, flags: RequestFlags { bits: s[2] } }),
        None => Err(Error::UnknownRole(be16(s[0], s[1]))),
    }
}
