// ---- prelude/bitlemmas.rs : bit-vector facts, proved (by(bit_vector)), broadcast into the units
pub mod bitlemmas {
use vstd::prelude::*;
verus! {
// (payload | padding) == 0  <=>  both are zero  (bit-vector fact used by is_record_boundary / into_skip)
pub broadcast proof fn lemma_or_zero(a: u16, b: u8)
    ensures
        (#[trigger] (a | (b as u16)) == 0) <==> (a == 0 && b == 0),
{
    assert(((a | (b as u16)) == 0) <==> (a == 0 && b == 0)) by (bit_vector);
}

// the long-form bit of a length byte: b >> 7 is 1 exactly for b >= 128
pub broadcast proof fn lemma_shr7(b: u8)
    ensures
        #[trigger] (b >> 7) == (if b >= 128 { 1u8 } else { 0u8 }),
{
    assert((b >> 7) == (if b >= 128 { 1u8 } else { 0u8 })) by (bit_vector);
}
} // verus!
} // mod bitlemmas
