// ---- prelude/protocol.rs : contracts of protocol-layer functions the parsers call.
// Each is external_body (assumed by Verus) and *proved by a complete Kani harness* over the
// full input domain on the real crate (kani/src/codecs.rs); the harness name is given.
impl RecordHeader {
    // kani: hdr_from_bytes_matches_spec (all 2^64 inputs)
    #[verifier::external_body]
    pub fn from_bytes(data: [u8; 8]) -> (r: Result<Self, Error>)
        ensures r == hdr_decode(data@),
    { unimplemented!() }
}
pub mod body {
    use vstd::prelude::*;
    use super::*;
    pub struct UnknownType { pub rtype: u8 }
    impl UnknownType {
        // kani: unknown_to_record_matches_spec (all rtype x all ids)
        #[verifier::external_body]
        pub fn to_record(self, request_id: u16) -> (r: [u8; 16])
            ensures r@ == unknown_reply(request_id, self.rtype),
        { unimplemented!() }
    }
    pub struct EndRequest { pub app_status: u32, pub protocol_status: ProtocolStatus }
    impl EndRequest {
        // kani: endrequest_to_record_matches_spec (all app_status x status x ids)
        #[verifier::external_body]
        pub fn to_record(self, request_id: u16) -> (r: [u8; 16])
            ensures r@ == end_request_bytes(request_id, self.app_status, self.protocol_status),
        { unimplemented!() }
    }
}

// bitflags-generated set over {FCGI_MAX_CONNS=1, FCGI_MAX_REQS=2, FCGI_MPXS_CONNS=4}  (R9)
pub struct ProtocolVariables { pub bits: u8 }
pub struct RequestFlags { pub bits: u8 }

// GetValuesResult for the variable set `bits` under `max_conns`: uninterpreted here; its content is
// decided by the Kani harnesses of C17 (write_response), this side only needs *which* reply is appended.
pub uninterp spec fn values_reply(bits: u8, max_conns: usize) -> Seq<u8>;
// bit of a queryable variable name, 0 for every other name (ProtocolVariables::parse_name; kani: parse_name_*)
pub uninterp spec fn var_bit(name: Seq<u8>) -> u8;
