// ---- prelude/protocol.rs : contracts of protocol-layer functions the parsers call.
// Each is external_body (assumed by Verus) and *proved by a complete Kani harness* over the
// full input domain on the real crate (kani/src/codecs.rs); the harness name is given.
impl RecordHeader {
    // kani: hdr_from_bytes_matches_spec (all 2^64 inputs)
    #[verifier::external_body]
    pub fn from_bytes(data: [u8; 8]) -> (r: Result<Self, Error>)
        ensures r == hdr_decode(data@),
    { unimplemented!() }
}
pub mod body {
    use vstd::prelude::*;
    use super::*;
    pub struct UnknownType { pub rtype: u8 }
    impl UnknownType {
        // kani: unknown_to_record_matches_spec (all rtype x all ids)
        #[verifier::external_body]
        pub fn to_record(self, request_id: u16) -> (r: [u8; 16])
            ensures r@ == unknown_reply(request_id, self.rtype),
        { unimplemented!() }
    }
    #[derive(Clone, Copy)]
    pub struct BeginRequest { pub role: Role, pub flags: RequestFlags }
    impl BeginRequest {
        pub const LEN: usize = 8;
        // kani: begin_request_codec (all 2^64 bodies)
        #[verifier::external_body]
        pub fn from_bytes(data: [u8; 8]) -> (r: Result<Self, Error>)
            ensures r == begin_decode(data@),
        { unimplemented!() }
    }
    pub struct EndRequest { pub app_status: u32, pub protocol_status: ProtocolStatus }
    impl EndRequest {
        // kani: endrequest_to_record_matches_spec (all app_status x status x ids)
        #[verifier::external_body]
        pub fn to_record(self, request_id: u16) -> (r: [u8; 16])
            ensures r@ == end_request_bytes(request_id, self.app_status, self.protocol_status),
        { unimplemented!() }
    }
}

// bitflags-generated set over {FCGI_MAX_CONNS=1, FCGI_MAX_REQS=2, FCGI_MPXS_CONNS=4}  (R9)
#[derive(Clone, Copy)]
pub struct ProtocolVariables { pub bits: u8 }
#[derive(Clone, Copy)]
pub struct RequestFlags { pub bits: u8 }

// GetValuesResult for the variable set `bits` under `max_conns`: uninterpreted here; its content is
// decided by the Kani harnesses of C17 (write_response), this side only needs *which* reply is appended.
pub uninterp spec fn values_reply(bits: u8, max_conns: usize) -> Seq<u8>;
// bit of a queryable variable name, 0 for every other name (ProtocolVariables::parse_name; kani: parse_name_*)
pub uninterp spec fn var_bit(name: Seq<u8>) -> u8;
pub open spec fn vars_union(bits: u8, pairs: Seq<(Seq<u8>, Seq<u8>)>) -> u8
    decreases pairs.len()
{
    if pairs.len() == 0 { bits } else { vars_union(bits | var_bit(pairs[0].0), pairs.skip(1)) }
}
impl ProtocolVariables {
    #[verifier::external_body]
    pub fn empty() -> (r: Self)
        ensures r.bits == 0,
    { unimplemented!() }

    // Appends one GetValuesResult record for this set; returns the number of bytes appended.
    // kani (C17, bounded): write_response_* harnesses decide the *content* values_reply stands for.
    #[verifier::external_body]
    pub fn write_response(self, out: &mut Vec<u8>, config: &Config) -> (r: usize)
        ensures
            final(out)@ == old(out)@ + values_reply(self.bits, config.max_conns.get()),
            r == values_reply(self.bits, config.max_conns.get()).len(),
            final(out)@.len() <= isize::MAX,   // a Vec never holds more than isize::MAX bytes
    { unimplemented!() }
}
// R9: `let mut nvit = NVIter::new(payload); vars.extend((&mut nvit).filter_map(parse_nv_var));
//      let remaining = nvit.into_inner().len();`
// Iterator adapters are outside Verus.  Contract: every complete pair of `payload` is visited in order
// (NVIter::next is verified against pair_step in the nv unit), the known names are or-ed into the set,
// and `remaining` is the length of the undecoded tail.
#[verifier::external_body]
pub fn scan_vars(vars: &mut ProtocolVariables, payload: &[u8]) -> (remaining: usize)
    ensures
        remaining == decode_rest(payload@).len(),
        remaining <= payload@.len(),   // consequence of the line above (lemma_rest_suffix, nv lemma unit)
        final(vars).bits == vars_union(old(vars).bits, decode_pairs(payload@)),
{ unimplemented!() }
