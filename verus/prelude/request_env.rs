// ---- prelude/request_env.rs : abstraction of the environment map and its element types (R8)
// The environment `HashMap<OwnedVarName, SmallBytes>` is abstracted to the ordered log of raw
// (name bytes, value bytes) pairs handed to it.  Map semantics (last value wins, keyed by the
// case-insensitive name) are std HashMap + C19 and are not re-proved here.
pub struct EnvLog { pub log: Ghost<Seq<(Seq<u8>, Seq<u8>)>> }
impl EnvLog {
    #[verifier::external_body]
    pub fn new() -> (r: Self)
        ensures r.log@ == Seq::<(Seq<u8>, Seq<u8>)>::empty(),
    { unimplemented!() }
}
// cgi::OwnedVarName as produced by make_cgivar: only the raw source bytes are tracked
pub struct CgiName { pub raw: Ghost<Seq<u8>> }
// SmallVec<[u8; N]> used for values: a growable byte vector
pub struct SmallBytes { pub v: Vec<u8> }
impl SmallBytes {
    pub open spec fn view(&self) -> Seq<u8> { self.v@ }
    #[verifier::external_body]
    pub fn with_capacity(n: usize) -> (r: Self)
        ensures r@ == Seq::<u8>::empty(),
    { unimplemented!() }
    #[verifier::external_body]
    pub fn extend_from_slice(&mut self, s: &[u8])
        ensures final(self)@ == old(self)@ + s@,
    { unimplemented!() }
    #[verifier::external_body]
    pub fn len(&self) -> (r: usize)
        ensures r == self@.len(),
    { unimplemented!() }
}
// params.insert(make_cgivar(name), val)
#[verifier::external_body]
pub fn env_insert(req: &mut Request, name: CgiName, val: SmallBytes)
    ensures
        final(req).params.log@ == old(req).params.log@.push((name.raw@, val@)),
        final(req).request_id == old(req).request_id && final(req).role == old(req).role && final(req).flags == old(req).flags,
{ unimplemented!() }
// R8: `let mut nvit = NVIter::new(data); params.extend((&mut nvit).map(|(n, v)| (make_cgivar(n), SmallBytes::from_slice(v))));
//      data = nvit.into_inner();`
// Every complete pair at the front of `data` is inserted in order (NVIter::next is verified against
// pair_step in the nv unit); the undecoded tail is returned; no byte of `data` is modified.
#[verifier::external_body]
pub fn env_extend_nv<'a>(req: &mut Request, data: &'a mut [u8]) -> (rest: &'a mut [u8])
    ensures
        final(req).params.log@ == old(req).params.log@ + decode_pairs(old(data)@),
        final(req).request_id == old(req).request_id && final(req).role == old(req).role && final(req).flags == old(req).flags,
        rest@ == decode_rest(old(data)@),
        rest@.len() <= old(data)@.len(),
        final(data)@ == old(data)@.take(old(data)@.len() - rest@.len()) + final(rest)@,
{ unimplemented!() }
