// ---- prelude/common.rs : trusted wrappers shared by all units (listed in evidence.trusted_base)
#[verifier::external_body]
pub fn vpanic() -> !
    requires false,
{
    panic!()
}

pub open spec fn min_int(a: int, b: int) -> int { if a <= b { a } else { b } }
pub open spec fn max_int(a: int, b: int) -> int { if a >= b { a } else { b } }

// std::cmp::min / max on usize (R6).  Verified bodies; the assumption is that std's min/max are these.
pub fn min_usize(a: usize, b: usize) -> (r: usize)
    ensures r == min_int(a as int, b as int),
{ if a <= b { a } else { b } }
pub fn max_usize(a: usize, b: usize) -> (r: usize)
    ensures r == max_int(a as int, b as int),
{ if a >= b { a } else { b } }

// <[u8]>::copy_within(lo..hi, dest) (R6): memmove semantics; panics iff the preconditions fail.
#[verifier::external_body]
pub fn copy_within_vec(v: &mut Vec<u8>, lo: usize, hi: usize, dest: usize)
    requires
        lo <= hi <= old(v)@.len(),
        dest + (hi - lo) <= old(v)@.len(),
    ensures
        final(v)@.len() == old(v)@.len(),
        forall|i: int| 0 <= i < final(v)@.len() ==> final(v)@[i] == (if dest <= i < dest + (hi - lo) { old(v)@[i - dest + lo] } else { old(v)@[i] }),
{
    v.copy_within(lo..hi, dest)
}

// u16::from_be_bytes([a, b]) (R6) -- proved over the full domain by Kani harness std_be16.
#[verifier::external_body]
pub fn u16_from_be_bytes(a: u8, b: u8) -> (r: u16)
    ensures r == a as int * 256 + b as int,
{
    u16::from_be_bytes([a, b])
}

pub assume_specification<B, C> [std::ops::ControlFlow::<B, C>::is_break] (c: &std::ops::ControlFlow<B, C>) -> (r: bool)
    ensures r == (c is Break);

// Vec<u8>::extend(&*slice) / Vec<u8>::extend([u8; N]) (R6): append, nothing else.  A Vec never holds more than isize::MAX
// bytes (a larger request aborts with `capacity overflow`; allocation failure is outside the verified configuration).
#[verifier::external_body]
pub fn vec_extend_slice(v: &mut Vec<u8>, s: &[u8])
    ensures final(v)@ == old(v)@ + s@, final(v)@.len() <= isize::MAX,
{
    v.extend(s)
}
#[verifier::external_body]
pub fn vec_extend_array<const N: usize>(v: &mut Vec<u8>, a: [u8; N])
    ensures final(v)@ == old(v)@ + a@, final(v)@.len() <= isize::MAX, a@.len() == N,
{
    v.extend(a)
}
// Vec::from(Box<[u8]>) after R7 (Box<[u8]> -> Vec<u8>): same bytes, same length.
pub fn vec_from_box(b: Vec<u8>) -> (r: Vec<u8>)
    ensures r@ == b@,
{ b }

// <&mut [u8] as io::Write>::write(src).expect(..) (R6): copies min(len) bytes to the front of the
// destination and advances the destination slice past them; never fails.
// (bounded cross-check on the real std impl: kani harness std_slice_write)
#[verifier::external_body]
pub fn slice_write(buf: &mut &mut [u8], src: &[u8]) -> (r: usize)
    ensures
        r == min_int(old(buf)@.len() as int, src@.len() as int),
        final(buf)@ == old(buf)@.skip(r as int),
        final(*old(buf))@ == src@.take(r as int) + final(*final(buf))@,
{
    use std::io::Write;
    buf.write(src).expect("writing into &mut [u8] should always succeed")
}

// `v[lo..hi].try_into().expect(..)` (slice -> [u8; N]) (R6): panics iff the range is out of bounds
// or its length differs from N.
#[verifier::external_body]
pub fn vec_to_array<const N: usize>(v: &Vec<u8>, lo: usize, hi: usize) -> (r: [u8; N])
    requires
        lo <= hi <= v@.len(),
        hi - lo == N,
    ensures
        r@ == v@.subrange(lo as int, hi as int),
{
    v[lo..hi].try_into().expect("slice should be same length as array")
}

// derived PartialEq of std::cmp::Ordering is structural equality
pub assume_specification [<Ordering as PartialEq>::eq] (a: &Ordering, b: &Ordering) -> (r: bool)
    ensures r == (*a == *b);

// core::mem::replace (used by the R6 expansion of replace_with::replace_with_and_return)
pub assume_specification<T> [std::mem::replace] (dest: &mut T, src: T) -> (r: T)
    ensures r == *old(dest), *final(dest) == src;

// `s.get(lo..hi)` on a byte slice (R6): Some(sub-slice) iff the range is in bounds
#[verifier::external_body]
pub fn slice_get_range(s: &[u8], lo: usize, hi: usize) -> (r: Option<&[u8]>)
    ensures
        (lo <= hi && hi <= s@.len()) ==> (r matches Some(t) && t@ == s@.subrange(lo as int, hi as int)),
        !(lo <= hi && hi <= s@.len()) ==> r is None,
{
    s.get(lo..hi)
}
// `<[u8; N]>::try_from(s).expect(..)` (R6): panics iff the length differs
#[verifier::external_body]
pub fn array_from_slice<const N: usize>(s: &[u8]) -> (r: [u8; N])
    requires s@.len() == N,
    ensures r@ == s@,
{
    <[u8; N]>::try_from(s).expect("slice should be same length as array")
}

// `&mut v[lo..hi]` on a Vec<u8> field (R6; Verus accepts the syntax but has no specification for it):
// the sub-slice aliases exactly v[lo..hi]; whatever is written through it lands there, nothing else changes.
#[verifier::external_body]
pub fn vec_slice_mut(v: &mut Vec<u8>, lo: usize, hi: usize) -> (r: &mut [u8])
    requires
        lo <= hi <= old(v)@.len(),
    ensures
        r@ == old(v)@.subrange(lo as int, hi as int),
        final(v)@ == old(v)@.subrange(0, lo as int) + final(r)@ + old(v)@.subrange(hi as int, old(v)@.len() as int),
        final(r)@.len() == r@.len(),
{
    &mut v[lo..hi]
}

// replace_with::replace_with_or_default_and_return(&mut d, |b| b.split_at(n)) (R6): the slice is taken out,
// split, the head returned and the tail stored back.  Panics iff n exceeds the length.
#[verifier::external_body]
pub fn bytes_take_split<'a>(d: &mut &'a [u8], n: usize) -> (r: &'a [u8])
    requires n <= old(d)@.len(),
    ensures r@ == old(d)@.take(n as int), final(d)@ == old(d)@.skip(n as int),
{
    let (a, b) = std::mem::take(d).split_at(n);
    *d = b;
    a
}
// the same for the exclusive slice (T := &mut [u8])
#[verifier::external_body]
pub fn bytes_take_split_mut<'a>(d: &mut &'a mut [u8], n: usize) -> (r: &'a mut [u8])
    requires n <= old(d)@.len(),
    ensures r@ == old(d)@.take(n as int), final(d)@ == old(d)@.skip(n as int),
{
    let (a, b) = std::mem::take(d).split_at_mut(n);
    *d = b;
    a
}
