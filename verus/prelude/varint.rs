// ---- prelude/varint.rs : contract of VarInt::read as used with `&mut &[u8]` readers.
// kani: varint_read_matches_dec proves exactly this contract on the real generic function for all
// 5-byte buffers and all truncations (complete: the function reads at most 4 bytes).
pub mod varint {
    use vstd::prelude::*;
    use super::*;
    #[derive(Clone, Copy)]
    pub struct VarInt(pub u32);
    #[derive(Debug)]
    pub struct IoError;
    impl VarInt {
        #[verifier::external_body]
        pub fn read(r: &mut &[u8]) -> (res: Result<VarInt, IoError>)
            ensures
                dec_ok(old(r)@) ==> (res matches Ok(v) && v.0 as int == dec_val(old(r)@) && v.0 <= 0x7fff_ffff
                    && final(r)@ == old(r)@.skip(dec_len(old(r)@))),
                !dec_ok(old(r)@) ==> res is Err,
        { unimplemented!() }
    }
    // TryFrom<VarInt> for usize (u32 -> usize, infallible on 64-bit targets) behind `.try_into().ok()?`
    pub fn varint_to_usize(v: VarInt) -> (r: Option<usize>)
        ensures r == Some(v.0 as usize),
    { Some(v.0 as usize) }
}
