use vstd::prelude::*;
verus! {

pub open spec fn min_spec(a: int, b: int) -> int { if a <= b { a } else { b } }
pub fn min(a: usize, b: usize) -> (r: usize) ensures r == min_spec(a as int, b as int) { if a <= b { a } else { b } }

#[verifier::external_body]
pub fn copy_within(s: &mut Vec<u8>, start: usize, end: usize, dest: usize)
    requires start <= end <= old(s)@.len(), dest + (end - start) <= old(s)@.len(),
    ensures final(s)@.len() == old(s)@.len(),
        forall|i: int| 0 <= i < final(s)@.len() ==> final(s)@[i] == (if dest <= i < dest + (end - start) { old(s)@[i - dest + start] } else { old(s)@[i] }),
{ s.copy_within(start..end, dest) }

pub enum State { Stream, Skip, Values { vars: u8 } }

pub struct Status { pub stream: usize, pub stream_end: bool, pub output: usize }

pub struct Parser {
    pub buffer: Vec<u8>,
    pub parsed_start: usize,
    pub gap_start: usize,
    pub raw_start: usize,
    pub free_start: usize,
    pub output: Vec<u8>,
    pub output_start: usize,
    pub payload_rem: u16,
    pub padding_rem: u8,
    pub state: State,
}

impl Parser {
    pub open spec fn wf(&self) -> bool {
        self.parsed_start <= self.gap_start <= self.raw_start <= self.free_start <= self.buffer@.len()
        && self.output_start <= self.output@.len()
    }

    fn parse_payload(&mut self, res: &mut Status, dest: &mut Option<&mut [u8]>) -> (r: core::ops::ControlFlow<()>)
        requires old(self).wf(), old(self).payload_rem > 0, old(self).raw_start < old(self).free_start,
        ensures final(self).wf(),
    {
        let raw_len = self.free_start - self.raw_start;
        let payload_len = min(usize::from(self.payload_rem), raw_len);
        let payload = &self.buffer[self.raw_start..(self.raw_start + payload_len)];

        let consumed = match &mut self.state {
            State::Stream => {
                let read = if let Some(buf) = dest {
                    0
                } else {
                    copy_within(&mut self.buffer, self.raw_start, self.raw_start + payload_len, self.gap_start);
                    self.gap_start += payload_len;
                    payload_len
                };
                res.stream += read;
                read
            },
            State::Skip => payload_len,
            State::Values { vars } => { payload_len },
        };
        self.raw_start += consumed;
        self.payload_rem -= consumed as u16;
        if self.payload_rem == 0 && consumed < raw_len {
            core::ops::ControlFlow::Continue(())
        } else {
            core::ops::ControlFlow::Break(())
        }
    }
}
}
fn main() {}
