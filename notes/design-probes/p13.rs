use vstd::prelude::*;
verus! {

pub struct VarInt(pub u32);
pub open spec fn dec_len(s: Seq<u8>) -> int { if s.len() == 0 { 0 } else if s[0] < 128 { 1 } else { 4 } }
pub open spec fn dec_ok(s: Seq<u8>) -> bool { s.len() >= 1 && s.len() >= dec_len(s) }
pub open spec fn dec_val(s: Seq<u8>) -> int {
    if s[0] < 128 { s[0] as int } else { ((s[0] as int - 128) * 16777216) + s[1] as int * 65536 + s[2] as int * 256 + s[3] as int }
}
impl VarInt {
    #[verifier::external_body]
    pub fn read(r: &mut &[u8]) -> (res: Result<VarInt, ()>)
        ensures
            dec_ok(old(r)@) ==> res.is_ok() && res.unwrap().0 as int == dec_val(old(r)@) && final(r)@ == old(r)@.skip(dec_len(old(r)@)),
            !dec_ok(old(r)@) ==> res.is_err(),
    { unimplemented!() }
}

pub fn varint_to_usize(v: VarInt) -> (r: Option<usize>) ensures r == Some(v.0 as usize) { Some(v.0 as usize) }

pub struct NVIter<'a> { pub data: &'a [u8] }

#[verifier::external_body]
pub fn take_split<'a>(d: &mut &'a [u8], at: usize) -> (r: &'a [u8])
    requires at <= old(d)@.len(),
    ensures r@ == old(d)@.take(at as int), final(d)@ == old(d)@.skip(at as int),
{ let (a, b) = d.split_at(at); *d = b; a }

impl<'a> NVIter<'a> {
    fn next(&mut self) -> (r: Option<(&'a [u8], &'a [u8])>)
        ensures
            r.is_none() ==> final(self).data@ == old(self).data@,
            r.is_some() ==> old(self).data@ == (old(self).data@.take(old(self).data@.len() - final(self).data@.len() - r.unwrap().0@.len() - r.unwrap().1@.len())) + r.unwrap().0@ + r.unwrap().1@ + final(self).data@,
    {
        let mut cur = &*self.data;
        let name_len: usize = varint_to_usize(VarInt::read(&mut cur).ok()?)?;
        let val_len: usize = varint_to_usize(VarInt::read(&mut cur).ok()?)?;
        let head_len = self.data.len() - cur.len();
        let total_len = head_len.checked_add(name_len)?.checked_add(val_len)?;

        if self.data.len() >= total_len {
            let nv = take_split(&mut self.data, total_len);
            let nv2 = &nv[head_len..];
            let (n, v) = nv2.split_at(name_len);
            Some((n, v))
        } else {
            None
        }
    }
}
}
fn main() {}
