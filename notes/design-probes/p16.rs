use vstd::prelude::*;
use std::ops::ControlFlow::{Break, Continue};
verus! {
type ControlFlow = std::ops::ControlFlow<()>;
pub assume_specification<B, C> [std::ops::ControlFlow::<B, C>::is_break] (c: &std::ops::ControlFlow<B, C>) -> (r: bool)
    ensures r == (c is Break);
pub enum Error { UnknownVersion(u8), Abort }
pub struct Status { pub stream: usize, pub stream_end: bool, pub output: usize }
pub struct Parser {
    pub buffer: Vec<u8>, pub raw_start: usize, pub free_start: usize,
    pub payload_rem: u16, pub padding_rem: u8,
}
impl Parser {
    pub open spec fn wf(&self) -> bool { self.raw_start <= self.free_start <= self.buffer@.len() }

    fn parse_payload(&mut self, res: &mut Status) -> (r: ControlFlow)
        requires old(self).wf(), old(self).payload_rem > 0, old(self).raw_start < old(self).free_start,
        ensures final(self).wf(), final(self).free_start == old(self).free_start, final(self).buffer@ == old(self).buffer@,
            r is Continue ==> final(self).payload_rem == 0 && final(self).raw_start < final(self).free_start,
            final(self).raw_start > old(self).raw_start || r is Break,
            final(self).padding_rem == old(self).padding_rem,
    {
        let raw_len = self.free_start - self.raw_start;
        let n = if (self.payload_rem as usize) < raw_len { self.payload_rem as usize } else { raw_len };
        self.raw_start += n;
        self.payload_rem -= n as u16;
        if self.payload_rem == 0 && n < raw_len { Continue(()) } else { Break(()) }
    }

    fn parse_head(&mut self, res: &mut Status) -> (r: Result<ControlFlow, Error>)
        requires old(self).wf(), old(self).payload_rem == 0, old(self).padding_rem == 0,
        ensures final(self).wf(), final(self).free_start == old(self).free_start,
            r is Ok && r->Ok_0 is Continue ==> final(self).raw_start == old(self).raw_start + 8,
            !(r is Ok && r->Ok_0 is Continue) ==> final(self).raw_start == old(self).raw_start,
    {
        let past_head = self.raw_start + 8;
        if past_head > self.free_start { return Ok(Break(())); }
        if self.buffer[self.raw_start] != 1 { return Err(Error::UnknownVersion(self.buffer[self.raw_start])); }
        self.payload_rem = 5; self.padding_rem = 3;
        self.raw_start = past_head;
        Ok(Continue(()))
    }

    pub fn parse(&mut self, new_input: usize) -> (r: Result<Status, Error>)
        requires old(self).wf(), new_input <= old(self).buffer@.len() - old(self).free_start,
        ensures final(self).wf(),
    {
        assert!(new_input <= self.buffer.len() - self.free_start);
        self.free_start += new_input;
        let mut res = Status { stream: 0, output: 0, stream_end: false };
        while self.raw_start < self.free_start
            invariant self.wf(),
            decreases self.free_start - self.raw_start, self.payload_rem as int + self.padding_rem as int,
        {
            if self.payload_rem > 0 {
                if self.parse_payload(&mut res).is_break() {
                    break;
                }
            }
            if self.padding_rem > 0 {
                let raw_len = self.free_start - self.raw_start;
                if raw_len <= self.padding_rem.into() {
                    self.raw_start = self.free_start;
                    self.padding_rem -= raw_len as u8;
                    break;
                }
                self.raw_start += usize::from(self.padding_rem);
                self.padding_rem = 0;
            }
            if self.parse_head(&mut res)?.is_break() {
                break;
            }
        }
        Ok(res)
    }
}
}
fn main() {}
