use vstd::prelude::*;
use std::ops::ControlFlow::{Break, Continue};
verus! {
type ControlFlow<T> = std::ops::ControlFlow<T, T>;
type SResult<'a> = (&'a mut [u8], State);
type PResult<'a> = ControlFlow<SResult<'a>>;

pub struct HeaderState;
pub struct Inner { pub x: u8 }
pub enum State {
    Header(HeaderState),
    HeaderSkip(SkipState<HeaderState>),
    Params(Inner),
    ParamsSkip(SkipState<Inner>),
}

pub trait StateBuilder: Sized {
    spec fn s_into_state(self) -> State;
    spec fn s_wrap_skip(skip: SkipState<Self>) -> State;

    fn into_state(self) -> (r: State) ensures r == self.s_into_state();
    fn wrap_skip(skip: SkipState<Self>) -> (r: State) ensures r == Self::s_wrap_skip(skip);

    fn into_skip(self, payload_rem: u16, padding_rem: u8) -> (r: State)
        ensures r == (if payload_rem == 0 && padding_rem == 0 { self.s_into_state() } else { Self::s_wrap_skip(SkipState { next: self, payload_rem, padding_rem }) }),
    {
        if (payload_rem | (padding_rem as u16)) == 0 {
            proof { assert(payload_rem | (padding_rem as u16) == 0 ==> payload_rem == 0 && padding_rem == 0) by(bit_vector); }
            self.into_state()
        } else {
            proof { assert(payload_rem == 0 && padding_rem == 0 ==> payload_rem | (padding_rem as u16) == 0) by(bit_vector); }
            Self::wrap_skip(SkipState { next: self, payload_rem, padding_rem })
        }
    }
}

pub struct SkipState<T> { pub next: T, pub payload_rem: u16, pub padding_rem: u8 }

impl StateBuilder for HeaderState {
    open spec fn s_into_state(self) -> State { State::Header(self) }
    open spec fn s_wrap_skip(skip: SkipState<Self>) -> State { State::HeaderSkip(skip) }
    fn into_state(self) -> State { State::Header(self) }
    fn wrap_skip(skip: SkipState<Self>) -> State { State::HeaderSkip(skip) }
}

impl<T: StateBuilder> SkipState<T> {
    fn drive(self, data: &mut [u8]) -> (r: PResult<'_>)
        ensures
            r matches Continue((rest, st)) ==> st == self.next.s_into_state() && rest@ == old(data)@.skip(self.payload_rem as int + self.padding_rem as int),
            r matches Break((rest, st)) ==> rest@.len() == 0 && st == T::s_wrap_skip(SkipState { next: self.next,
                payload_rem: (if old(data)@.len() < self.payload_rem { (self.payload_rem - old(data)@.len()) as u16 } else { 0u16 }),
                padding_rem: (if old(data)@.len() < self.payload_rem { self.padding_rem } else { (self.padding_rem - (old(data)@.len() - self.payload_rem)) as u8 }) }),
    {
        let mut this = self;
        let payload = usize::from(this.payload_rem);
        let (total, overflow) = match payload.checked_add(this.padding_rem.into()) {
            Some(t) => (t, false),
            None => (payload, true),
        };
        if let Some(new_payload_rem @ 1..) = payload.checked_sub(data.len()) {
            this.payload_rem = new_payload_rem as u16;
            Break((&mut [], T::wrap_skip(this)))
        } else if overflow || data.len() < total {
            this.padding_rem -= (data.len() - payload) as u8;
            this.payload_rem = 0;
            Break((&mut [], T::wrap_skip(this)))
        } else {
            Continue((&mut data[total..], this.next.into_state()))
        }
    }
}
}
fn main() {}
