use vstd::prelude::*;
verus! {

pub open spec fn dec_len(s: Seq<u8>) -> int { if s.len() == 0 { 0 } else if s[0] < 128 { 1 } else { 4 } }
pub open spec fn dec_ok(s: Seq<u8>) -> bool { s.len() >= 1 && s.len() >= dec_len(s) }
pub open spec fn dec_val(s: Seq<u8>) -> int {
    if s[0] < 128 { s[0] as int } else { ((s[0] as int - 128) * 16777216) + s[1] as int * 65536 + s[2] as int * 256 + s[3] as int }
}

/// Some((head_len, name_len, val_len)) iff a complete pair starts at s[0].
pub open spec fn pair_step(s: Seq<u8>) -> Option<(int, int, int)> {
    if !dec_ok(s) { None } else {
        let l1 = dec_len(s);
        let t = s.skip(l1);
        if !dec_ok(t) { None } else {
            let hl = l1 + dec_len(t);
            let nl = dec_val(s);
            let vl = dec_val(t);
            if hl + nl + vl <= s.len() { Some((hl, nl, vl)) } else { None }
        }
    }
}

pub open spec fn pair_total(p: (int, int, int)) -> int { p.0 + p.1 + p.2 }

pub open spec fn decode_pairs(s: Seq<u8>) -> Seq<(Seq<u8>, Seq<u8>)>
    decreases s.len()
{
    match pair_step(s) {
        None => seq![],
        Some(p) => if pair_total(p) >= 2 {
            seq![(s.subrange(p.0, p.0 + p.1), s.subrange(p.0 + p.1, pair_total(p)))] + decode_pairs(s.skip(pair_total(p)))
        } else { seq![] },
    }
}
pub open spec fn decode_rest(s: Seq<u8>) -> Seq<u8>
    decreases s.len()
{
    match pair_step(s) {
        None => s,
        Some(p) => if pair_total(p) >= 2 { decode_rest(s.skip(pair_total(p))) } else { s },
    }
}

proof fn lemma_step_nonneg(s: Seq<u8>)
    ensures pair_step(s) matches Some(p) ==> p.0 >= 2 && p.1 >= 0 && p.2 >= 0 && pair_total(p) <= s.len(),
{
}

/// A complete pair at the front of `a` is the same complete pair at the front of `a + b`.
proof fn lemma_step_extend(a: Seq<u8>, b: Seq<u8>)
    requires pair_step(a) is Some,
    ensures pair_step(a + b) == pair_step(a),
{
    let ab = a + b;
    assert(ab[0] == a[0]);
    let l1 = dec_len(a);
    assert(dec_len(ab) == l1);
    assert forall|i: int| 0 <= i < a.len() implies ab[i] == a[i] by {}
    let ta = a.skip(l1);
    let tab = ab.skip(l1);
    assert(tab =~= ta + b);
    assert(tab[0] == ta[0]);
    assert forall|i: int| 0 <= i < ta.len() implies tab[i] == ta[i] by {}
}

proof fn lemma_prefix(a: Seq<u8>, b: Seq<u8>)
    ensures
        decode_pairs(a + b) == decode_pairs(a) + decode_pairs(decode_rest(a) + b),
    decreases a.len()
{
    lemma_step_nonneg(a);
    match pair_step(a) {
        None => {
            assert(decode_pairs(a) == Seq::<(Seq<u8>, Seq<u8>)>::empty());
            assert(decode_rest(a) == a);
            assert(decode_pairs(a) + decode_pairs(a + b) =~= decode_pairs(a + b));
        },
        Some(p) => {
            lemma_step_extend(a, b);
            let t = pair_total(p);
            assert(t >= 2);
            let ab = a + b;
            assert(ab.skip(t) =~= a.skip(t) + b);
            lemma_prefix(a.skip(t), b);
            assert(ab.subrange(p.0, p.0 + p.1) =~= a.subrange(p.0, p.0 + p.1));
            assert(ab.subrange(p.0 + p.1, t) =~= a.subrange(p.0 + p.1, t));
            let first = seq![(a.subrange(p.0, p.0 + p.1), a.subrange(p.0 + p.1, t))];
            assert(decode_pairs(ab) == first + decode_pairs(ab.skip(t)));
            assert(decode_pairs(a) == first + decode_pairs(a.skip(t)));
            assert(decode_rest(a) == decode_rest(a.skip(t)));
            assert(first + (decode_pairs(a.skip(t)) + decode_pairs(decode_rest(a.skip(t)) + b))
                =~= (first + decode_pairs(a.skip(t))) + decode_pairs(decode_rest(a.skip(t)) + b));
        },
    }
}

proof fn lemma_count(s: Seq<u8>)
    ensures decode_pairs(s).len() * 2 <= s.len(),
    decreases s.len()
{
    lemma_step_nonneg(s);
    match pair_step(s) {
        None => {},
        Some(p) => { lemma_count(s.skip(pair_total(p))); },
    }
}
}
fn main() {}
