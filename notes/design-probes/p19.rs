use vstd::prelude::*;
verus! {
pub struct NVIter<'a> { pub data: &'a mut [u8] }
impl<'a> NVIter<'a> {
    pub fn new(data: &'a mut [u8]) -> (r: Self) ensures r.data@ == old(data)@ { Self { data } }
    pub fn into_inner(self) -> (r: &'a mut [u8]) ensures r@ == old(self.data)@ { self.data }
}
pub struct Req { pub log: Ghost<Seq<Seq<u8>>> }
#[verifier::external_body]
pub fn env_extend_nv<'a>(req: &mut Req, it: &mut NVIter<'a>)
    ensures final(it).data@.len() <= old(it).data@.len(),
        final(it).data@ == old(it).data@.skip(old(it).data@.len() - final(it).data@.len()),
{ unimplemented!() }

pub struct Inner { pub req: Req, pub buffer: Vec<u8> }
impl Inner {
    fn parse_stream(&mut self, mut data: &mut [u8], rec_end: bool) -> (r: usize)
        requires old(self).buffer@.len() == 0,
        ensures r <= old(data)@.len(), rec_end ==> r == old(data)@.len(),
    {
        let len = data.len();
        let mut nvit = NVIter::new(data);
        env_extend_nv(&mut self.req, &mut nvit);
        data = nvit.into_inner();

        if rec_end && !data.is_empty() {
            self.buffer.reserve(if data.len() > 64 { data.len() } else { 64 });
            self.buffer.extend_from_slice(&*data);
            len
        } else {
            len - data.len()
        }
    }
}
}
fn main() {}
