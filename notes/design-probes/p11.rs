use vstd::prelude::*;
use std::ops::ControlFlow::{Break, Continue};
verus! {

pub enum State { Header, HeaderSkip(SkipState), Done }

type ControlFlow<T> = std::ops::ControlFlow<T, T>;
type SResult<'a> = (&'a mut [u8], State);
type PResult<'a> = ControlFlow<SResult<'a>>;

pub struct SkipState {
    pub payload_rem: u16,
    pub padding_rem: u8,
}

impl SkipState {
    pub open spec fn todo(self) -> int { self.payload_rem as int + self.padding_rem as int }

    fn drive(self, data: &mut [u8]) -> (r: PResult<'_>)
        requires self.todo() > 0,
        ensures
            match r {
                Break((rest, State::HeaderSkip(s))) => rest@.len() == 0 && old(data)@.len() < self.todo()
                    && s.todo() == self.todo() - old(data)@.len()
                    && (s.payload_rem > 0 ==> s.padding_rem == self.padding_rem),
                Continue((rest, State::Header)) => old(data)@.len() >= self.todo()
                    && rest@ == old(data)@.skip(self.todo()),
                _ => false,
            },
    {
        let mut this = self;
        let payload = usize::from(this.payload_rem);
        let (total, overflow) = match payload.checked_add(this.padding_rem.into()) {
            Some(t) => (t, false),
            None => (payload, true),
        };

        if let Some(new_payload_rem @ 1..) = payload.checked_sub(data.len()) {
            this.payload_rem = new_payload_rem as u16;
            Break((&mut [], State::HeaderSkip(this)))
        } else if overflow || data.len() < total {
            this.padding_rem -= (data.len() - payload) as u8;
            this.payload_rem = 0;
            Break((&mut [], State::HeaderSkip(this)))
        } else /* data.len() >= total */ {
            Continue((&mut data[total..], State::Header))
        }
    }
}
}
fn main() {}
