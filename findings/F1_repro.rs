use fastcgi_server::parser::{request, stream};
use fastcgi_server::protocol as fcgi;
use fastcgi_server::Config;

fn stream_parser(config: &Config) -> stream::Parser<'_> {
    let mut p = request::Parser::new(config);
    let mut wire = Vec::new();
    wire.extend(fcgi::body::BeginRequest { role: fcgi::Role::Responder, flags: fcgi::RequestFlags::empty() }.to_record(1));
    wire.extend(fcgi::RecordHeader::new(fcgi::RecordType::Params, 1).to_bytes());
    p.input_buffer()[..wire.len()].copy_from_slice(&wire);
    assert!(p.parse(wire.len()).done);
    p.into_stream_parser().unwrap()
}

#[test]
fn set_stream_non_input_type_is_rejected_not_panicking() {
    let config = Config::with_conns(1.try_into().unwrap());
    let mut sp = stream_parser(&config);
    assert_eq!(sp.active_stream(), Some(fcgi::RecordType::Stdin));
    // documented: Err(SequenceError) for a type that is not a valid input stream of the role
    assert!(sp.set_stream(Some(fcgi::RecordType::Params)).is_err());
    assert_eq!(sp.active_stream(), Some(fcgi::RecordType::Stdin));
}
