#!/usr/bin/env python3
"""Self-test of the checks (not a registered check): single-edit semantic mutants that must raise a
VIOLATION, and harmless edits that must not.  Works on scratch copies under /tmp/selftest (removed
afterwards); /repo is never touched.   usage: selftest.py [name-substring ...]"""
import os
import re
import shutil
import subprocess
import sys

VERIF = os.path.dirname(os.path.dirname(os.path.abspath(__file__)))
SCR = '/tmp/selftest'

# (name, file, old text, new text, properties expected to alarm, 'mutant' | 'harmless')
CASES = [
    # ---- stream::Parser::parse (inline padding / loop code)
    ('parse.padding_skip_plus1', 'src/parser/stream.rs', 'self.raw_start += usize::from(self.padding_rem);', 'self.raw_start += usize::from(self.padding_rem) + 1;', ['C02'], 'mutant'),
    ('parse.padding_not_cleared', 'src/parser/stream.rs', '                self.raw_start += usize::from(self.padding_rem);\n                self.padding_rem = 0;', '                self.raw_start += usize::from(self.padding_rem);', ['C02'], 'mutant'),
    ('parse.padding_partial_wrong_sub', 'src/parser/stream.rs', 'self.padding_rem -= raw_len as u8;', 'self.padding_rem -= (raw_len as u8).saturating_sub(1);', ['C02'], 'mutant'),
    ('parse.free_start_not_advanced', 'src/parser/stream.rs', 'self.free_start += new_input;', 'self.free_start += new_input.saturating_sub(1);', ['C05'], 'mutant'),
    ('parse_payload.dest_count', 'src/parser/stream.rs', 'res.stream += read;', 'res.stream += payload_len;', ['C02'], 'mutant'),
    ('consume_stream.no_min', 'src/parser/stream.rs', 'self.parsed_start += min(amt, parsed_len);', 'self.parsed_start += amt;', ['C03'], 'mutant'),
    ('consume_output.keeps_start', 'src/parser/stream.rs', '            self.output.clear();\n            self.output_start = 0;', '            self.output.clear();', ['C03'], 'mutant'),
    ('f1.revert_fix', 'src/parser/stream.rs', '            if !s.is_input_stream()\n                || cmp_input_streams(self.request.role, s, self.stream) == Ordering::Less\n            {', '            if cmp_input_streams(self.request.role, s, self.stream) == Ordering::Less {', ['C18'], 'mutant'),
    ('cmp.greater_less_swapped', 'src/parser/stream.rs', '            recv_pos = Ordering::Greater;', '            recv_pos = Ordering::Less;', ['C18'], 'mutant'),
    # ---- request parser
    ('skip.payload_cast', 'src/parser/request.rs', 'self.padding_rem -= (data.len() - payload) as u8;', 'self.padding_rem -= (data.len() - payload + 1) as u8;', ['C03'], 'mutant'),
    ('header.null_request_accepted', 'src/parser/request.rs', 'let Some(req_id) = NonZeroU16::new(head.request_id) else {\n            fatal!(data, Error::NullRequest);\n        };', 'let Some(req_id) = NonZeroU16::new(head.request_id.max(1)) else {\n            fatal!(data, Error::NullRequest);\n        };', ['C01'], 'mutant'),
    ('params.end_keeps_padding_zero', 'src/parser/request.rs', 'let done = self.inner.req.into_skip(0, head.padding_length);', 'let done = self.inner.req.into_skip(0, 0);', ['C01'], 'mutant'),
    ('params.mpx_wrong_id', 'src/parser/request.rs', '                    app_status: 0,\n                }.to_record(head.request_id));\n                // Skip record body', '                    app_status: 0,\n                }.to_record(req_id));\n                // Skip record body', ['C04'], 'mutant'),
    ('move_input.off_by_one', 'src/parser/request.rs', 'self.input.copy_within(used_len..self.input_len, 0);', 'self.input.copy_within(used_len..self.input_len, 1);', ['C05'], 'mutant'),
    ('parse_stream.reserve_only', 'src/parser/request.rs', '            self.buffer.extend(&*data);\n            crate::macros::trace!(', '            crate::macros::trace!(', ['C01'], 'mutant'),
    ('values.reply_on_empty_body', 'src/parser/request.rs', '        if self.payload_rem > 0 {\n            let len = min(data.len(), self.payload_rem.into());', '        if true {\n            let len = min(data.len(), self.payload_rem.into());', ['C04'], 'mutant'),
    # ---- CGI response writers
    ('redirect.count_off_by_one', 'src/cgi/response.rs', 'Ok(LOCATION.len() + 2 + val.len())', 'Ok(LOCATION.len() + 1 + val.len())', ['C20'], 'mutant'),
    ('headers.count_missing_separator', 'src/cgi/response.rs', 'written += name.len() + val.len() + 3;', 'written += name.len() + val.len() + 2;', ['C20'], 'mutant'),
    ('headers.value_before_name', 'src/cgi/response.rs', '        w.write_all(name)?;\n        w.write_all(b": ")?;\n        w.write_all(val)?;', '        w.write_all(val)?;\n        w.write_all(b": ")?;\n        w.write_all(name)?;', ['C20'], 'mutant'),
    ('epilogue.endrequest_first', 'src/protocol/body.rs', '    for &s in streams {\n        let rec = RecordHeader::new(s, request_id);\n        buf.extend_from_slice(&rec.to_bytes());\n    }\n    buf.extend_from_slice(&EndRequest::from(status).to_record(request_id));', '    buf.extend_from_slice(&EndRequest::from(status).to_record(request_id));\n    for &s in streams {\n        let rec = RecordHeader::new(s, request_id);\n        buf.extend_from_slice(&rec.to_bytes());\n    }', ['C17'], 'mutant'),
    # ---- harmless edits: must stay exit 0
    ('harmless.rename_local', 'src/parser/stream.rs', 'let parsed_len = self.gap_start - self.parsed_start;\n        self.parsed_start += min(amt, parsed_len);', 'let plen = self.gap_start - self.parsed_start;\n        self.parsed_start += min(amt, plen);', ['C02', 'C03'], 'harmless'),
    ('harmless.reorder_independent', 'src/parser/stream.rs', '        self.payload_rem = head.content_length;\n        self.padding_rem = head.padding_length;\n        self.raw_start = past_head;', '        self.raw_start = past_head;\n        self.padding_rem = head.padding_length;\n        self.payload_rem = head.content_length;', ['C02'], 'harmless'),
    ('harmless.comment_and_trace', 'src/parser/request.rs', '        self.input_len = rem_len;', '        // keep only the tail\n        self.input_len = rem_len;', ['C05'], 'harmless'),
    # ---- harmless reorderings of independent statements next to length arithmetic (second false-alarm class, DESIGN 9)
    ('harmless.mpx_count_before_extend', 'src/parser/stream.rs', '                self.output.extend(endreq);\n                res.output += endreq.len();', '                res.output += endreq.len();\n                self.output.extend(endreq);', ['C04'], 'harmless'),
    ('harmless.payload_rem_before_raw_start', 'src/parser/stream.rs', '        self.raw_start += consumed;\n        self.payload_rem -= consumed as u16;', '        self.payload_rem -= consumed as u16;\n        self.raw_start += consumed;', ['C02'], 'harmless'),
    ('harmless.padding_rem_before_raw_start', 'src/parser/stream.rs', '                    self.raw_start = self.free_start;\n                    self.padding_rem -= raw_len as u8;', '                    self.padding_rem -= raw_len as u8;\n                    self.raw_start = self.free_start;', ['C02'], 'harmless'),
    ('harmless.request_clear_before_len', 'src/parser/request.rs', '        self.input_len += new_input;\n        self.output.clear();', '        self.output.clear();\n        self.input_len += new_input;', ['C05'], 'harmless'),
    ('harmless.skip_zero_before_sub', 'src/parser/request.rs', '            self.padding_rem -= (data.len() - payload) as u8;\n            self.payload_rem = 0;', '            self.payload_rem = 0;\n            self.padding_rem -= (data.len() - payload) as u8;', ['C03'], 'harmless'),
    ('harmless.skip_total_via_plus', 'src/parser/request.rs', '        } else if overflow || data.len() < total {', '        } else if overflow || total > data.len() {', ['C03'], 'harmless'),
]


def main():
    sel = sys.argv[1:]
    shutil.rmtree(SCR, ignore_errors=True)
    ok = True
    for name, f, old, new, props, kind in CASES:
        if sel and not any(s in name for s in sel):
            continue
        d = os.path.join(SCR, name)
        os.makedirs(d)
        for x in ('Cargo.toml', 'Cargo.lock', 'src', 'examples'):
            s = os.path.join('/repo', x)
            shutil.copytree(s, os.path.join(d, x)) if os.path.isdir(s) else shutil.copy(s, d)
        p = os.path.join(d, f)
        t = open(p).read()
        if old not in t:
            print(f'{name}: ANCHOR NOT FOUND in {f}')
            ok = False
            continue
        open(p, 'w').write(t.replace(old, new, 1))
        for prop in props:
            env = dict(os.environ, VERIF_REPO=d, CARGO_NET_OFFLINE='true')
            r = subprocess.run(['./check', prop, '--tier', 'quick'], cwd=VERIF, env=env, capture_output=True, text=True)
            line = next((l for l in r.stdout.split('\n') if l.startswith(('VIOLATION', 'OK', 'UNDECIDED'))), r.stdout[-200:])
            obs = [l.strip() for l in r.stdout.split('\n') if 'failed obligation' in l][:3]
            want = {'mutant': (1,), 'harmless': (0,), 'mutant-or-undecided': (1, 2)}[kind]
            verdict = 'as expected' if r.returncode in want else '*** UNEXPECTED ***'
            if r.returncode not in want:
                ok = False
            print(f'{name} [{kind}] ./check {prop}: rc={r.returncode} {verdict} :: {line[:110]} {obs}', flush=True)
        shutil.rmtree(d, ignore_errors=True)
    shutil.rmtree(SCR, ignore_errors=True)
    return 0 if ok else 1


if __name__ == '__main__':
    sys.exit(main())
