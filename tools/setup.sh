#!/bin/sh
# MANIFEST.setup_cmd: build everything the checks need from files on disk, offline.
cd "$(dirname "$0")/.."
export CARGO_NET_OFFLINE=true
mkdir -p .work/units evidence replays
# warm the Kani build of the harness crate against /repo (compiles the real crate + harnesses once)
python3 - <<'PY'
import sys
sys.path.insert(0, 'tools')
import kanirun, subprocess, os
d = kanirun.workdir()
p = subprocess.run(['cargo', 'kani', '-Z', 'stubbing', '-Z', 'function-contracts', '--output-format', 'terse',
                    '--harness', 'varint_from_u8_u16'], cwd=d, env=kanirun._env(), capture_output=True, text=True)
print(p.stdout[-400:])
sys.exit(0 if 'VERIFICATION:- SUCCESSFUL' in p.stdout else 1)
PY
rc=$?
# warm Verus (first invocation loads vstd)
printf 'use vstd::prelude::*;\nverus!{ proof fn t() ensures 1 + 1 == 2 {} }\nfn main(){}\n' > .work/units/warm.rs
verus .work/units/warm.rs >/dev/null 2>&1 || rc=1
exit $rc
