"""Minimal Rust source scanner used by the mechanical extractor.

Nothing here interprets Rust semantics.  It provides
  * mask(text): a same-length copy of the source in which comments, string /
    char literals are blanked out (so regexes and brace matching only see code),
  * strip_comments(text): removes comments (doc comments included),
  * brace / paren matching on the masked text,
  * item location by kind + name inside a given span,
  * macro-call location with top-level argument splitting.
"""
import re


class ScanError(Exception):
    pass


def mask(text: str, keep_strings: bool = False) -> str:
    """Blank comments (always) and string/char literal *contents* (unless keep_strings)."""
    out = list(text)
    i, n = 0, len(text)

    def blank(a, b):
        for k in range(a, b):
            if out[k] != '\n':
                out[k] = ' '

    while i < n:
        c = text[i]
        if c == '/' and i + 1 < n and text[i + 1] == '/':
            j = text.find('\n', i)
            j = n if j < 0 else j
            blank(i, j)
            i = j
        elif c == '/' and i + 1 < n and text[i + 1] == '*':
            depth, j = 1, i + 2
            while j < n and depth:
                if text.startswith('/*', j):
                    depth += 1
                    j += 2
                elif text.startswith('*/', j):
                    depth -= 1
                    j += 2
                else:
                    j += 1
            blank(i, j)
            i = j
        elif c == '"' or (c == 'b' and text.startswith('b"', i)) :
            s = i + (1 if c == '"' else 2)
            j = s
            while j < n and text[j] != '"':
                j += 2 if text[j] == '\\' else 1
            if not keep_strings:
                blank(s, j)
            i = j + 1
        elif c == 'r' and re.match(r'r#*"', text[i:i + 8]) or (c == 'b' and re.match(r'br#*"', text[i:i + 9])):
            m = re.match(r'b?r(#*)"', text[i:])
            hashes = m.group(1)
            s = i + m.end()
            j = text.find('"' + hashes, s)
            if j < 0:
                raise ScanError('unterminated raw string')
            if not keep_strings:
                blank(s, j)
            i = j + 1 + len(hashes)
        elif c == "'" or (c == 'b' and text.startswith("b'", i)):
            s = i + (1 if c == "'" else 2)
            if s < n and text[s] == '\\':
                j = text.find("'", s + 2)
                if not keep_strings:
                    blank(s, j)
                i = j + 1
            elif s + 1 < n and text[s + 1] == "'":
                if not keep_strings:
                    blank(s, s + 1)
                i = s + 2
            else:
                i = s  # lifetime / loop label
        else:
            # skip identifiers quickly so that r / b prefixes inside identifiers are not misread
            if c.isalpha() or c == '_':
                m = re.match(r'[A-Za-z_][A-Za-z0-9_]*', text[i:])
                word = m.group(0)
                nxt = text[i + len(word): i + len(word) + 1]
                if word in ('r', 'b', 'br') and nxt in ('"', '#', "'"):
                    # handled by the branches above on next iteration only if we are at that char;
                    # we are, because branches above test text[i]; reaching here means no literal.
                    pass
                i += len(word)
            else:
                i += 1
    return ''.join(out)


def strip_comments(text: str) -> str:
    m = mask(text, keep_strings=True)
    # mask() blanks comments in place; remove trailing whitespace and runs of blank lines they leave
    lines = [ln.rstrip() for ln in m.split('\n')]
    out = []
    for ln in lines:
        if ln == '' and out and out[-1] == '':
            continue
        out.append(ln)
    return '\n'.join(out)


OPEN = {'(': ')', '[': ']', '{': '}'}
CLOSE = {v: k for k, v in OPEN.items()}


def match_close(masked: str, open_pos: int) -> int:
    """Index of the bracket closing the one at open_pos (masked text)."""
    stack = []
    for i in range(open_pos, len(masked)):
        c = masked[i]
        if c in OPEN:
            stack.append(c)
        elif c in CLOSE:
            if not stack or stack[-1] != CLOSE[c]:
                raise ScanError(f'unbalanced bracket at {i}')
            stack.pop()
            if not stack:
                return i
    raise ScanError('no closing bracket')


def find_body_open(masked: str, start: int) -> int:
    """First '{' at bracket depth 0 (w.r.t. () and []) at or after start; also stops at ';'."""
    depth = 0
    i = start
    while i < len(masked):
        c = masked[i]
        if c in '([':
            depth += 1
        elif c in ')]':
            depth -= 1
        elif c == '{' and depth == 0:
            return i
        elif c == ';' and depth == 0:
            return -1
        i += 1
    return -1


def depth0_positions(masked: str, start: int, end: int):
    """Yield (pos, char) for positions in [start, end) at brace/paren/bracket depth 0."""
    depth = 0
    for i in range(start, end):
        c = masked[i]
        if c in OPEN:
            if depth == 0:
                yield i, c
            depth += 1
        elif c in CLOSE:
            depth -= 1
            if depth == 0:
                yield i, c
        elif depth == 0:
            yield i, c


def _depth_map(masked: str, start: int, end: int):
    depth = 0
    dm = {}
    for i in range(start, end):
        c = masked[i]
        if c == '{':
            dm[i] = depth
            depth += 1
        elif c == '}':
            depth -= 1
            dm[i] = depth
    return dm


def brace_depth_at(masked: str, start: int, pos: int) -> int:
    d = 0
    for i in range(start, pos):
        if masked[i] == '{':
            d += 1
        elif masked[i] == '}':
            d -= 1
    return d


QUAL = r'(?:pub(?:\s*\([^)]*\))?\s+)?(?:default\s+)?(?:const\s+)?(?:async\s+)?(?:unsafe\s+)?(?:extern\s+"[^"]*"\s+)?'


def find_item(text: str, masked: str, kind: str, name: str, span=None):
    """Locate an item of `kind` named `name` at brace depth 0 of span (default: whole file).

    kind: fn | struct | enum | type | const | static | macro | trait | impl
    For impl, `name` is the header with whitespace normalised, e.g. "impl<'a> Parser<'a>".
    Returns (start, end) with end exclusive, covering qualifiers .. closing brace / semicolon.
    """
    lo, hi = span if span else (0, len(text))
    if kind == 'impl':
        want = re.sub(r'\s+', ' ', name.strip())
        for m in re.finditer(r'\bimpl\b', masked[lo:hi]):
            s = lo + m.start()
            if brace_depth_at(masked, lo, s) != 0:
                continue
            b = find_body_open(masked, s)
            if b < 0:
                continue
            header = re.sub(r'\s+', ' ', text[s:b].strip())
            if header == want:
                return s, match_close(masked, b) + 1
        raise ScanError(f'impl block not found: {name}')
    if kind == 'macro':
        pat = r'\bmacro_rules!\s*' + re.escape(name) + r'\b'
    else:
        kw = {'fn': 'fn', 'struct': 'struct', 'enum': 'enum', 'type': 'type', 'const': 'const',
              'static': 'static', 'trait': 'trait'}[kind]
        pat = QUAL + r'\b' + kw + r'\s+' + re.escape(name) + r'\b'
    for m in re.finditer(pat, masked[lo:hi]):
        s = lo + m.start()
        if brace_depth_at(masked, lo, s) != 0:
            continue
        # skip matches whose qualifier start is in the middle of an identifier
        if s > 0 and (masked[s - 1].isalnum() or masked[s - 1] == '_'):
            continue
        e = lo + m.end()
        if kind in ('type', 'const', 'static'):
            j = e
            depth = 0
            while j < hi:
                c = masked[j]
                if c in OPEN:
                    depth += 1
                elif c in CLOSE:
                    depth -= 1
                elif c == ';' and depth == 0:
                    return s, j + 1
                j += 1
            raise ScanError(f'unterminated {kind} {name}')
        if kind == 'macro':
            b = masked.index('{', e)
            return s, match_close(masked, b) + 1
        b = find_body_open(masked, e)
        if b < 0:
            # unit struct / tuple struct / fn declaration ending with ';'
            j = masked.index(';', e)
            return s, j + 1
        return s, match_close(masked, b) + 1
    raise ScanError(f'{kind} {name} not found')


def split_top_commas(masked_args: str):
    """Return list of (start, end) spans of top-level comma separated args in masked_args."""
    spans, depth, last = [], 0, 0
    for i, c in enumerate(masked_args):
        if c in OPEN:
            depth += 1
        elif c in CLOSE:
            depth -= 1
        elif c == ',' and depth == 0:
            spans.append((last, i))
            last = i + 1
    if masked_args[last:].strip() != '' or not spans:
        spans.append((last, len(masked_args)))
    return spans


def find_macro_calls(masked: str, path_regex: str):
    """Yield (start, end, open, close) for calls `path!( ... )` / `path![..]` / `path!{..}`."""
    for m in re.finditer(r'(?<![A-Za-z0-9_:])(' + path_regex + r')\s*!\s*([(\[{])', masked):
        o = m.end() - 1
        c = match_close(masked, o)
        yield m.start(), c + 1, o, c
