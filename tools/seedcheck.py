#!/usr/bin/env python3
"""Confirm seeded changes and run the checks against them.

usage: seedcheck.py <dir with mutN.diff/demoN.rs> <property id> [<extra property ids to also run>...]
For every mutN.diff in the directory:
  1. scratch copy of /repo (outside /repo and /verif), demo passes on the unchanged copy,
  2. patch applied: crate builds, the whole existing suite passes, the demo fails,
  3. ./check <property> (quick) is run with VERIF_REPO=<scratch>; result recorded.
Writes <dir>/seedcheck.json. Scratch copies are removed afterwards.
"""
import json
import os
import re
import shutil
import subprocess
import sys

VERIF = os.path.dirname(os.path.dirname(os.path.abspath(__file__)))
SCR = '/tmp/sc-' + (sys.argv[2] if len(sys.argv) > 2 else 'x')
ENV = dict(os.environ, CARGO_NET_OFFLINE='true', CARGO_TARGET_DIR=os.path.join(SCR, 'target'))


def sh(cmd, cwd, env=ENV, timeout=1800):
    p = subprocess.run(cmd, cwd=cwd, env=env, shell=True, capture_output=True, text=True, timeout=timeout)
    return p.returncode, p.stdout + p.stderr


def fresh(name):
    d = os.path.join(SCR, name)
    shutil.rmtree(d, ignore_errors=True)
    os.makedirs(d)
    for f in ('Cargo.toml', 'Cargo.lock', 'src', 'examples'):
        s = os.path.join('/repo', f)
        if os.path.isdir(s):
            shutil.copytree(s, os.path.join(d, f))
        elif os.path.exists(s):
            shutil.copy(s, d)
    # fresh mtimes: the scratch copies share one cargo target dir
    subprocess.run("find . -name '*.rs' -exec touch {} +", cwd=d, shell=True)
    return d


def main():
    src, prop = sys.argv[1], sys.argv[2]
    extra = sys.argv[3:]
    os.makedirs(SCR, exist_ok=True)
    results = []
    for diff in sorted(f for f in os.listdir(src) if re.match(r'mut\d+\.diff$', f)):
        n = re.search(r'\d+', diff).group(0)
        demo = os.path.join(src, f'demo{n}.rs')
        r = {'mutant': f'{prop}-{n}', 'diff': diff}
        d = fresh(f'{prop}-{n}')
        os.makedirs(os.path.join(d, 'tests'), exist_ok=True)
        tname = f'seed_demo_{prop.lower()}_{n}'
        shutil.copy(demo, os.path.join(d, 'tests', tname + '.rs'))
        rc, out = sh(f'cargo test --offline --all-features --test {tname} 2>&1 | tail -5', d)
        r['demo_on_clean'] = 'pass' if 'test result: ok' in out else 'FAIL: ' + out[-300:]
        os.remove(os.path.join(d, 'tests', tname + '.rs'))
        rc, out = sh(f'git apply --unsafe-paths -p1 --directory={d} {os.path.join(src, diff)} 2>&1 || patch -p1 -d {d} < {os.path.join(src, diff)}', '/')
        subprocess.run("find src -name '*.rs' -exec touch {} +", cwd=d, shell=True)
        r['applied'] = rc == 0
        if rc != 0:
            r['apply_output'] = out[-400:]
        rc, out = sh('cargo build --offline --all-features 2>&1 | tail -3', d)
        r['builds'] = 'error' not in out
        rc, out = sh('cargo test --offline --workspace --no-fail-fast 2>&1 | grep -E "^test result|FAILED|panicked" | head -8', d)
        ok = re.findall(r'test result: ok\. (\d+) passed', out)
        r['suite_with_change'] = 'pass (%s)' % '+'.join(ok) if ok and 'FAILED' not in out else 'FAIL: ' + out[-300:]
        shutil.copy(demo, os.path.join(d, 'tests', tname + '.rs'))
        rc, out = sh(f'cargo test --offline --all-features --test {tname} 2>&1 | grep -E "^test result|panicked" | head -4', d)
        r['demo_with_change'] = 'fails (as required)' if 'FAILED' in out or 'failed' in out else 'PASSES?: ' + out[-300:]
        os.remove(os.path.join(d, 'tests', tname + '.rs'))
        r['confirmed'] = (r['demo_on_clean'] == 'pass' and r['applied'] and r['builds']
                          and r['suite_with_change'].startswith('pass') and r['demo_with_change'].startswith('fails'))
        r['checks'] = {}
        for p in [prop] + extra:
            env = dict(os.environ, VERIF_REPO=d, CARGO_NET_OFFLINE='true')
            rc, out = sh(f'./check {p} --tier quick', VERIF, env=env, timeout=3600)
            lines = [l for l in out.split('\n') if l.startswith(('VIOLATION', 'OK', 'UNDECIDED', 'KNOWN', '  failed'))]
            r['checks'][p] = {'rc': rc, 'lines': lines[:8]}
        results.append(r)
        print(json.dumps(r, indent=1), flush=True)
        shutil.rmtree(d, ignore_errors=True)
    json.dump(results, open(os.path.join(src, 'seedcheck.json'), 'w'), indent=1)


if __name__ == '__main__':
    main()
