"""Declared rewrite rules R1..R11 (DESIGN.md section 2.1).

Every rule is a pure text -> (text, fired) function working on comment-stripped item text.
Rules never look at what the code *means*; each is either a desugaring rustc itself performs,
the removal of logging, or the replacement of a std call Verus has no specification for by a
call to a wrapper in verus/prelude (whose contract is listed as trusted and, where the domain is
finite, proved by Kani in the same run).
"""
import re
import rsscan


def _macro_stmt_remove(text, path_regex):
    """Remove `path!( ... )` statements (with optional trailing ';')."""
    n = 0
    while True:
        masked = rsscan.mask(text)
        calls = list(rsscan.find_macro_calls(masked, path_regex))
        if not calls:
            return text, n
        s, e, o, c = calls[0]
        # swallow trailing semicolon
        m = re.match(r'\s*;', text[e:])
        if m:
            e += m.end()
        # swallow leading indentation if the statement is alone on its line
        ls = text.rfind('\n', 0, s) + 1
        if text[ls:s].strip() == '':
            le = text.find('\n', e)
            if le >= 0 and text[e:le].strip() == '':
                s, e = ls, le + 1
        text = text[:s] + text[e:]
        n += 1


def r2_tracing(text):
    return _macro_stmt_remove(
        text, r'(?:::)?tracing::(?:trace|debug|info|warn|error)|(?:\$?crate::)?macros::trace')


def r3_asserts(text):
    n = 0
    while True:
        masked = rsscan.mask(text)
        calls = list(rsscan.find_macro_calls(masked, r'debug_assert|debug_assert_eq|assert|assert_eq'))
        if not calls:
            break
        s, e, o, c = calls[0]
        name = re.match(r'[a-z_]+', text[s:]).group(0)
        args = text[o + 1:c]
        spans = rsscan.split_top_commas(masked[o + 1:c])
        a = [args[x:y].strip() for x, y in spans]
        if name in ('debug_assert', 'assert'):
            cond = a[0]
        else:
            cond = f'({a[0]}) == ({a[1]})'
        m = re.match(r'\s*;', text[e:])
        if m:
            e += m.end()
        text = text[:s] + f'if !({cond}) {{ vpanic(); }}' + text[e:]
        n += 1
    m = 0
    while True:
        masked = rsscan.mask(text)
        calls = list(rsscan.find_macro_calls(masked, r'unreachable|unimplemented'))
        if not calls:
            break
        s, e, o, c = calls[0]
        text = text[:s] + 'vpanic()' + text[e:]
        m += 1
    return text, n + m


def r4_mut_self(text, item_kind=None):
    """fn f(mut self, ..) {B}  ->  fn f(self, ..) { let mut this = self; B[self:=this] }"""
    masked = rsscan.mask(text)
    m = re.search(r'\bfn\s+\w+\s*(<[^>]*>)?\s*\(\s*mut\s+self\b', masked)
    if not m:
        return text, 0
    b = rsscan.find_body_open(masked, masked.index('(', m.start()))
    if b < 0:
        return text, 0
    sig = text[:b]
    sig = re.sub(r'\(\s*mut\s+self\b', '(self', sig, count=1)
    body = text[b:]
    mb = rsscan.mask(body)
    out, last = [], 0
    for mm in re.finditer(r'(?<![A-Za-z0-9_$])self\b', mb):
        out.append(body[last:mm.start()])
        out.append('this')
        last = mm.end()
    out.append(body[last:])
    body = ''.join(out)
    body = '{\n        let mut this = self;' + body[1:]
    return sig + body, 1


def r5_destructuring_assign(text):
    """`let a; (a, b) = e;` -> `let (a, b__t) = e; b = b__t;`   and   `(a, b) = e;` likewise."""
    n = 0
    while True:
        masked = rsscan.mask(text)
        m = None
        for mm in re.finditer(r'(?:(?<=[;{}])|^)(\s*)\(\s*([$\w\.]+)\s*,\s*([$\w\.]+)\s*\)\s*=(?!=)', masked, re.M):
            m = mm
            break
        if not m:
            return text, n
        a, b = m.group(2), m.group(3)
        # end of statement: ';' at depth 0
        depth, j = 0, m.end()
        while j < len(masked):
            c = masked[j]
            if c in rsscan.OPEN:
                depth += 1
            elif c in rsscan.CLOSE:
                depth -= 1
            elif c == ';' and depth == 0:
                break
            j += 1
        rhs = text[m.end():j].strip()
        ind = m.group(1)
        stmt_start = m.start() + len(m.group(1))
        pre = text[:stmt_start]
        decl = re.search(r'let\s+(' + re.escape(a) + r'|' + re.escape(b) + r')\s*;\s*$', pre)
        names = {}
        sfx = f'__t{n}'
        if decl:
            pre = pre[:decl.start()]
            declared = decl.group(1)
        else:
            declared = None
        la = a if declared == a else 'a' + sfx
        lb = b if declared == b else 'b' + sfx
        new = f'let ({la}, {lb}) = {rhs};'
        if declared != a:
            new += f' {a} = {la};'
        if declared != b:
            new += f' {b} = {lb};'
        text = pre + new + text[j + 1:]
        n += 1


def _method_call_rewrite(text, method, build):
    """Rewrite RECV.method(ARGS) using build(recv, [args]) -> replacement."""
    n = 0
    pos = 0
    while True:
        masked = rsscan.mask(text)
        m = re.search(r'\.\s*' + method + r'\s*\(', masked[pos:])
        if not m:
            return text, n
        dot = pos + m.start()
        o = pos + m.end() - 1
        c = rsscan.match_close(masked, o)
        # receiver: walk back over a path expression  a.b.c / a[..] / (..)
        i = dot
        while i > 0:
            ch = masked[i - 1]
            if ch.isalnum() or ch in '_.$':
                i -= 1
            elif ch in ')]':
                depth, k = 0, i - 1
                while k >= 0:
                    if masked[k] in ')]':
                        depth += 1
                    elif masked[k] in '([':
                        depth -= 1
                        if depth == 0:
                            break
                    k -= 1
                i = k
            else:
                break
        recv = text[i:dot].strip()
        args = text[o + 1:c]
        spans = rsscan.split_top_commas(masked[o + 1:c])
        a = [args[x:y].strip() for x, y in spans if args[x:y].strip() != '']
        rep = build(recv, a)
        if rep is None:
            pos = c
            continue
        text = text[:i] + rep + text[c + 1:]
        n += 1
        pos = i + len(rep)


def _call_rewrite(text, path_regex, build):
    n = 0
    pos = 0
    while True:
        masked = rsscan.mask(text)
        m = re.search(r'(?<![A-Za-z0-9_:.])(' + path_regex + r')\s*\(', masked[pos:])
        if not m:
            return text, n
        s = pos + m.start()
        o = pos + m.end() - 1
        c = rsscan.match_close(masked, o)
        args = text[o + 1:c]
        spans = rsscan.split_top_commas(masked[o + 1:c])
        a = [args[x:y].strip() for x, y in spans if args[x:y].strip() != '']
        rep = build(m.group(1), a)
        if rep is None:
            pos = c
            continue
        text = text[:s] + rep + text[c + 1:]
        n += 1
        pos = s + len(rep)


def r6_std_wrappers(text):
    total = 0

    def copy_within(recv, a):
        if len(a) != 2 or '..' not in a[0]:
            return None
        lo, hi = a[0].split('..', 1)
        return f'copy_within_vec(&mut {recv}, {lo.strip()}, {hi.strip()}, {a[1]})'
    text, n = _method_call_rewrite(text, 'copy_within', copy_within)
    total += n

    def be16(path, a):
        if len(a) == 1 and a[0].startswith('[') and a[0].endswith(']'):
            inner = a[0][1:-1]
            return f'u16_from_be_bytes({inner})'
        return None
    text, n = _call_rewrite(text, r'u16::from_be_bytes', be16)
    total += n

    def be32(path, a):
        if len(a) == 1 and a[0].startswith('[') and a[0].endswith(']'):
            return f'u32_from_be_bytes({a[0][1:-1]})'
        return None
    text, n = _call_rewrite(text, r'u32::from_be_bytes', be32)
    total += n

    def extend(recv, a):
        if len(a) != 1:
            return None
        # a receiver that is itself a `&mut Vec<u8>` binding (out / $out) is reborrowed, a place is borrowed
        target = f'&mut *{recv}' if recv in ('out', '$out') else f'&mut {recv}'
        if a[0].startswith('&*'):
            return f'vec_extend_slice({target}, {a[0]})'
        return f'vec_extend_array({target}, {a[0]})'
    text, n = _method_call_rewrite(text, 'extend', extend)
    total += n
    text, n = _call_rewrite(text, r'Vec::from', lambda p, a: f'vec_from_box({a[0]})' if len(a) == 1 else None)
    total += n

    # `a[lo..hi].copy_from_slice(src);` on a local byte array -> arr_copy_from_slice(&mut a, lo, hi, src);
    text, n = re.subn(r'\b(\w+)\[([^\[\]\.]+?)\.\.([^\[\]\.]+?)\]\s*\.copy_from_slice\((.*?)\);',
                      r'arr_copy_from_slice(&mut \1, \2, \3, \4);', text)
    total += n
    text, n = re.subn(r'\b(\w+)\.write\(\s*(\w+)\s*\)\s*\.expect\(\s*"[^"]*"\s*\)', r'slice_write(\1, \2)', text)
    total += n
    text, n = re.subn(r'\b([\w\.]+)\[([^\[\]]+?)\.\.([^\[\]]+?)\]\s*\.try_into\(\)\s*\.expect\(\s*"[^"]*"\s*\)',
                      r'vec_to_array(&\1, \2, \3)', text)
    total += n
    text, n = re.subn(r'<\[u8;\s*([^\]]+?)\s*\]>::try_from\(\s*(\w+)\s*\)\s*\.expect\(\s*"[^"]*"\s*\)',
                      r'array_from_slice::<{ \1 }>(\2)', text)
    total += n

    def get_range(recv, a):
        if len(a) != 1 or '..' not in a[0]:
            return None
        lo, hi = a[0].split('..', 1)
        if lo.strip() == '' or hi.strip() == '':
            return None
        return f'slice_get_range(&*{recv}, {lo.strip()}, {hi.strip()})'
    text, n = _method_call_rewrite(text, 'get', get_range)
    total += n
    # &mut self.<field>[lo..hi] / [..hi]  (Vec<u8> fields only; `&mut data[n..]` on slices is specified by vstd)
    def _vsm(m):
        lo = m.group(2).strip() or '0'
        hi = m.group(3).strip()
        return f'vec_slice_mut(&mut {m.group(1)}, {lo}, {hi})'
    text, n = re.subn(r'&mut\s+((?:self|this)(?:\.\w+)+)\[([^\[\]]*?)\.\.([^\[\]]+?)\]', _vsm, text)
    total += n
    text, n = _call_rewrite(text, r'min', lambda p, a: f'min_usize({a[0]}, {a[1]})' if len(a) == 2 else None)
    total += n
    text, n = _call_rewrite(text, r'max', lambda p, a: f'max_usize({a[0]}, {a[1]})' if len(a) == 2 else None)
    total += n
    return text, total


def r7_box_slice(text):
    n = len(re.findall(r'Box<\[u8\]>', text))
    text = text.replace('Box<[u8]>', 'Vec<u8>')
    return text, n


def r11_visibility(text, item_kind=None):
    n = 0
    # const fn -> fn
    text, k = re.subn(r'\bconst\s+fn\b', 'fn', text)
    n += k
    # pub(super)/pub(crate) -> pub
    text, k = re.subn(r'\bpub\s*\(\s*(?:super|crate)\s*\)', 'pub', text)
    n += k
    if item_kind in ('struct', 'enum', 'trait', 'type') and not re.match(r'\s*pub\b', text):
        text = 'pub ' + text.lstrip()
        n += 1
    if item_kind == 'struct':
        # all fields pub (Verus: private fields cannot appear in contracts of pub fns)
        masked = rsscan.mask(text)
        b = masked.find('{')
        if b >= 0:
            out, depth, i = [], 0, 0
            lines = text.split('\n')
            res = []
            pos = 0
            for ln in lines:
                d = rsscan.brace_depth_at(masked, 0, pos)
                m = re.match(r'(\s*)(?!pub\b)([A-Za-z_]\w*\s*:(?!:))', ln)
                if d == 1 and m:
                    ln = m.group(1) + 'pub ' + ln[len(m.group(1)):]
                    n += 1
                res.append(ln)
                pos += len(ln) + 1 - (4 if (d == 1 and m) else 0)
            text = '\n'.join(res)
    return text, n


def r1_attrs(text):
    """Strip outer attributes #[...] (derive, inline, must_use, allow, doc, non_exhaustive, error)."""
    n = 0
    while True:
        masked = rsscan.mask(text)
        m = re.search(r'#\s*!?\s*\[', masked)
        if not m:
            return text, n
        o = m.end() - 1
        c = rsscan.match_close(masked, o)
        e = c + 1
        # swallow the rest of the line if blank
        le = text.find('\n', e)
        ls = text.rfind('\n', 0, m.start()) + 1
        if le >= 0 and text[e:le].strip() == '' and text[ls:m.start()].strip() == '':
            text = text[:ls] + text[le + 1:]
        else:
            text = text[:m.start()] + text[e:]
        n += 1


def r12_for_ref_pattern(text):
    """`for &x in E { B }` (E a slice) -> index loop visiting the elements in order:
       `let sl__ = E; let mut i__: usize = 0; while i__ < sl__.len() { let x = sl__[i__]; i__ += 1; B }`
    Verus has neither ref patterns nor a usable spec for slice::Iter; slice iteration order is trusted."""
    n = 0
    while True:
        masked = rsscan.mask(text)
        m = re.search(r'\bfor\s+&\s*(\w+)\s+in\b', masked)
        if not m:
            return text, n
        b = rsscan.find_body_open(masked, m.end())
        x = m.group(1)
        expr = text[m.end():b].strip()
        text = (text[:m.start()] + f'let sl__ = {expr}; let mut i__: usize = 0; while i__ < sl__.len() '
                + f'{{ let {x} = sl__[i__]; i__ += 1;' + text[b + 1:])
        n += 1


def r13_wildcard_param(text):
    """`fn f(_: T)` -> `fn f(_p0: T)` (Verus wants identifier patterns for parameters)."""
    masked = rsscan.mask(text)
    m = re.search(r'\bfn\s+\w+[^(]*\(', masked)
    if not m:
        return text, 0
    o = m.end() - 1
    c = rsscan.match_close(masked, o)
    params = text[o:c]
    new, n = re.subn(r'([(,]\s*)_(\s*:)', lambda mm: mm.group(1) + '_p' + mm.group(2), params)
    return text[:o] + new + text[c:], n


RULES = [
    ('R1', r1_attrs),
    ('R2', r2_tracing),
    ('R3', r3_asserts),
    ('R4', r4_mut_self),
    ('R5', r5_destructuring_assign),
    ('R6', r6_std_wrappers),
    ('R7', r7_box_slice),
    ('R11', r11_visibility),
    ('R12', r12_for_ref_pattern),
    ('R13', r13_wildcard_param),
]


def apply_all(text, item_kind=None, header_only=False):
    counts = {}
    for name, fn in RULES:
        if header_only and name not in ('R1', 'R11'):
            continue
        if item_kind == 'macro' and name in ('R4',):
            continue
        if 'item_kind' in fn.__code__.co_varnames[:fn.__code__.co_argcount]:
            text, n = fn(text, item_kind)
        else:
            text, n = fn(text)
        if n:
            counts[name] = counts.get(name, 0) + n
    return text, counts
