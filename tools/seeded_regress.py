#!/usr/bin/env python3
"""Regression over /verif/seeded/*: every seeded change must still be reported (VIOLATION) by the check of
the property it was written against; every harmless patch must not be reported.  Scratch copies under
/tmp/sreg (removed afterwards); /repo is never touched.   usage: seeded_regress.py [id-substring ...]"""
import glob, json, os, re, shutil, subprocess, sys
VERIF = os.path.dirname(os.path.dirname(os.path.abspath(__file__)))
SCR = '/tmp/sreg-%d' % os.getpid()
TARGET = {  # property the change was written against (second round: see meta.json author notes)
    'S2-stream-1': ['C02'], 'S2-stream-2': ['C02'], 'S2-stream-3': ['C04'], 'S2-stream-4': ['C05'],
    'S2-request-1': ['C03'], 'S2-request-2': ['C05'], 'S2-request-3': ['C03'],
}
HARMLESS = {'harmless-R6-request': ['C01', 'C03', 'C05'], 'harmless-R6-stream': ['C02', 'C03', 'C18'], 'harmless-H1': ['C02', 'C18'], 'harmless-H2': ['C01', 'C05'], 'harmless-H3': ['C15', 'C16', 'C17', 'C06']}

def scratch(name, patch):
    d = os.path.join(SCR, name)
    shutil.rmtree(d, ignore_errors=True); os.makedirs(d)
    for x in ('Cargo.toml', 'Cargo.lock', 'src', 'examples'):
        s = os.path.join('/repo', x)
        shutil.copytree(s, os.path.join(d, x)) if os.path.isdir(s) else shutil.copy(s, d)
    r = subprocess.run(f'patch -s -p1 -d {d} < {patch}', shell=True, capture_output=True, text=True)
    return d if r.returncode == 0 else None

def check(d, prop):
    env = dict(os.environ, VERIF_REPO=d, CARGO_NET_OFFLINE='true')
    r = subprocess.run(['./check', prop, '--tier', 'quick'], cwd=VERIF, env=env, capture_output=True, text=True)
    obs = [l.strip().replace('failed obligation ', '') for l in r.stdout.split('\n') if 'failed obligation' in l][:3]
    return r.returncode, obs

def main():
    sel = sys.argv[1:]
    bad = 0
    for mdir in sorted(glob.glob(os.path.join(VERIF, 'seeded', '*'))):
        name = os.path.basename(mdir)
        if sel and not any(s in name for s in sel):
            continue
        if name.startswith('harmless-'):
            for patch in sorted(glob.glob(os.path.join(mdir, 'h*.diff'))):
                d = scratch(name + '-' + os.path.basename(patch), patch)
                for p in HARMLESS.get(name) or [name.split('-')[-1]]:
                    rc, obs = check(d, p)
                    flag = 'ok' if rc != 1 else '*** FALSE ALARM ***'
                    bad += rc == 1
                    print(f'{name}/{os.path.basename(patch)} ./check {p}: rc={rc} {flag} {obs}', flush=True)
                shutil.rmtree(d, ignore_errors=True)
            continue
        props = TARGET.get(name) or [re.search(r'(C\d+)-', name).group(1)]
        d = scratch(name, os.path.join(mdir, 'patch.diff'))
        for p in props:
            rc, obs = check(d, p)
            flag = 'detected' if rc == 1 else '*** NOT DETECTED ***'
            bad += rc != 1
            print(f'{name} ./check {p}: rc={rc} {flag} {obs}', flush=True)
        shutil.rmtree(d, ignore_errors=True)
    shutil.rmtree(SCR, ignore_errors=True)
    print('ALL AS EXPECTED' if not bad else f'{bad} UNEXPECTED')
    return 1 if bad else 0

if __name__ == '__main__':
    sys.exit(main())
