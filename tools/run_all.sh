#!/bin/sh
# run every registered quick check on /repo, validate MANIFEST and evidence (use before committing evidence)
cd "$(dirname "$0")/.."
rc=0
for p in $(python3 -c "import json; print(' '.join(c['property_id'] for c in json.load(open('MANIFEST.json'))['checks']))"); do
  ./check $p --tier ${1:-quick} | tail -1 || rc=1
done
python3-vt - <<'PY' || rc=1
import json, jsonschema, glob
sch = json.load(open('/root/.vp/EVIDENCE.schema.json'))
m = json.load(open('/verif/MANIFEST.json'))
jsonschema.validate(m, json.load(open('/root/.vp/MANIFEST.schema.json')))
bad = 0
for c in m['checks']:
    ev = json.load(open(c['evidence_file']))
    jsonschema.validate(ev, sch)
    cov = ev['coverage']
    if ev['level'] == 'proof' and cov['obligations'] != cov['discharged']:
        print('EVIDENCE MISMATCH', c['property_id'], cov['obligations'], cov['discharged']); bad = 1
    if ev.get('violations'):
        print('EVIDENCE HAS VIOLATIONS', c['property_id']); bad = 1
print('manifest + evidence valid' if not bad else 'PROBLEMS')
raise SystemExit(bad)
PY
exit $rc
