#!/usr/bin/env python3
"""Import one sub-agent output directory (mutN.diff, demoN.rs, hN.diff, notes.json, seedcheck.json) into /verif/seeded.
usage: seed_import.py <dir> <property> <round tag, e.g. R3>"""
import json, os, re, shutil, sys
VERIF = os.path.dirname(os.path.dirname(os.path.abspath(__file__)))
src, prop, tag = sys.argv[1:4]
notes = {n['file']: n for n in json.load(open(os.path.join(src, 'notes.json')))}
sc = {r['diff']: r for r in json.load(open(os.path.join(src, 'seedcheck.json')))} if os.path.exists(os.path.join(src, 'seedcheck.json')) else {}
for f in sorted(os.listdir(src)):
    m = re.match(r'mut(\d+)\.diff$', f)
    if not m:
        continue
    n = m.group(1)
    sid = f'{tag}-{prop}-{n}'
    d = os.path.join(VERIF, 'seeded', sid)
    os.makedirs(d, exist_ok=True)
    shutil.copy(os.path.join(src, f), os.path.join(d, 'patch.diff'))
    shutil.copy(os.path.join(src, f'demo{n}.rs'), os.path.join(d, 'demo.rs'))
    r = sc.get(f, {})
    chk = (r.get('checks') or {}).get(prop, {})
    lines = chk.get('lines', [])
    res = 'VIOLATION' if chk.get('rc') == 1 else ('UNDECIDED' if chk.get('rc') == 2 else ('OK (not detected)' if chk.get('rc') == 0 else 'not run'))
    files = sorted(set(re.findall(r'^\+\+\+ b/(\S+)', open(os.path.join(src, f)).read(), re.M)))
    meta = {'id': sid, 'breaks_property': prop, 'files': files,
            'author': 'independent sub-agent given only the property text and a scratch worktree (round 3)',
            'author_notes': notes.get(f, {}),
            'confirmed_by_me': {k: r.get(k) for k in ('demo_on_clean', 'applied', 'builds', 'suite_with_change', 'demo_with_change', 'confirmed')},
            'check': {'command': f'VERIF_REPO=<scratch copy with patch> ./check {prop} --tier quick', 'result': res,
                      'failed_obligations': [re.sub(r'^\s*failed obligation\s+', '', l).split(' (')[0] for l in lines if 'failed obligation' in l]}}
    json.dump(meta, open(os.path.join(d, 'meta.json'), 'w'), indent=1)
    print(sid, res)
hs = sorted(f for f in os.listdir(src) if re.match(r'h\d+\.diff$', f))
if hs:
    d = os.path.join(VERIF, 'seeded', f'harmless-{tag}-{prop}')
    os.makedirs(d, exist_ok=True)
    for f in hs:
        shutil.copy(os.path.join(src, f), os.path.join(d, f))
    json.dump([v for k, v in notes.items() if k in hs], open(os.path.join(d, 'notes.json'), 'w'), indent=1)
    print('harmless:', hs)
