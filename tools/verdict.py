#!/usr/bin/env python3
"""check driver: ./check <Cxx> [--tier quick|thorough] [--replay <file>]

Decides one property by (1) regenerating every Verus unit that carries an obligation labelled with
the property from /repo's current working tree and running Verus on it, (2) running the Kani
harnesses labelled with the property against the real crate, (3) mapping verifier failures back to
named obligations, (4) writing evidence/<id>.json and, on a violation, replays/<id>-*.json.

exit 0  every obligation of the property was generated and discharged
exit 1  an obligation that is discharged on the pinned tree (baseline) fails now: VIOLATION line
exit 2  undecided: lost anchor, unsupported construct, resource limit, vacuity guard, tool error
"""
import concurrent.futures as cf
import shutil
import glob
import json
import os
import re
import subprocess
import sys
import time

HERE = os.path.dirname(os.path.abspath(__file__))
VERIF = os.path.dirname(HERE)
sys.path.insert(0, HERE)
import extract  # noqa: E402
import kanirun  # noqa: E402

REPO = os.environ.get('VERIF_REPO', '/repo')
WORK = os.path.join(VERIF, '.work')
VERUS_TIMEOUT = int(os.environ.get('VERIF_VERUS_TIMEOUT', '600'))


def units_for(prop, tier):
    res = []
    for p in sorted(glob.glob(os.path.join(VERIF, 'verus', 'units', '*.unit'))):
        txt = extract.unit_text(p)
        for inc in re.findall(r'^@@(?:include|contractfile)\s+(\S+)', txt, re.M):
            try:
                txt += open(os.path.join(VERIF, 'verus', inc)).read()
            except OSError:
                pass
        if re.search(r'//\s*@[C0-9,]*\b' + prop + r'\b', txt):
            m = re.search(r'^@@#\s*tier:\s*(\w+)', txt, re.M)
            utier = m.group(1) if m else 'quick'
            if utier == 'thorough' and tier != 'thorough':
                continue
            res.append(p)
    return res


def run_verus(unit_path, canary=False):
    """Generate + verify one unit; a failing or resource-limited run is repeated with other solver seeds.
    A proof found under any seed is a proof, so only obligations that fail under *every* attempt are
    reported (this keeps solver instability from turning into alarms)."""
    res = run_verus_once(unit_path, canary, seed=None)
    if canary or res.get('status') not in ('failed', 'undecided') or 'em' not in res:
        return res
    def fkeys(a):
        return sorted((f.get('fn') or '', tuple(f.get('labels') or []), f.get('kind')) for f in a.get('failures', []))
    attempts = [res]
    for seed in (7, 1234):
        nxt = run_verus_once(unit_path, canary, seed=seed)
        attempts.append(nxt)
        if nxt.get('status') == 'ok':
            nxt['retries'] = len(attempts) - 1
            return nxt
        if nxt.get('status') == 'failed' and res.get('status') == 'failed' and fkeys(nxt) == fkeys(res) and not nxt.get('undecided_fns'):
            break   # the same definite failures under another seed: no need for a third attempt
    # keep only failures that every attempt reports (same function + same label set / kind)
    def key(f):
        return (f.get('fn'), tuple(f.get('labels') or []), f.get('kind') if not f.get('labels') else 'clause')
    final = attempts[-1]
    if all(a.get('status') == 'failed' for a in attempts):
        common = set(key(f) for f in attempts[0]['failures'])
        for a in attempts[1:]:
            common &= set(key(f) for f in a['failures'])
        final['failures'] = [f for f in final['failures'] if key(f) in common]
        if not final['failures']:
            final.update(status='undecided', reason='failures differ between solver seeds (unstable proof)')
    final['retries'] = len(attempts) - 1
    if final.get('status') == 'failed':
        isolate(unit_path, final)
    return final


def fn_pattern(fn):
    """--verify-function pattern of a qualified function name (inherent methods, free functions, lemmas)."""
    s = fn.split('::', 1)[1] if fn.startswith('src/') and '::' in fn else fn
    if s.startswith('lemma::'):
        return s[7:]
    if ' for ' in s:
        return None
    m = re.match(r'impl(?:<[^>]*>)?\s+(\w+)(?:<[^>]*>)?::(\w+)$', s)
    if m:
        return m.group(1) + '::' + m.group(2)
    return s if re.match(r'\w+$', s) else None


def isolate(unit_path, final):
    """A function whose obligations fail in the whole-unit run is verified once more on its own (same text, same
    contracts, only this function's queries): Z3's search depends on everything else in the file, and a proof found
    in either configuration is a proof.  Failures that persist are the ones reported."""
    if final.get('verify_only'):
        return   # a derived unit already verifies one function on its own
    for fn in sorted({f['fn'] for f in final['failures'] if f.get('fn')}):
        pat = fn_pattern(fn)
        if not pat:
            continue
        for seed in (None, 7):
            r = run_verus_once(unit_path, only_fn=pat, seed=seed)
            if r.get('status') == 'ok' and r.get('verified', 0) > 0:
                final['failures'] = [f for f in final['failures'] if f.get('fn') != fn]
                final.setdefault('isolated_proofs', []).append(short_fn(fn))
                break
            if r.get('status') != 'failed' and not str(r.get('reason', '')).startswith('solver resource limit'):
                break   # does not compile / pattern matched nothing: isolation adds no information
    if not final['failures'] and not final.get('undecided_fns'):
        final['status'] = 'ok'


def run_verus_once(unit_path, canary=False, seed=None, only_fn=None):
    """Generate + verify one unit. Returns dict(status, ...)."""
    name = os.path.splitext(os.path.basename(unit_path))[0]
    # the file (= crate) name is part of every SMT symbol and therefore of Z3's search order: keep it fixed per unit
    # (a pid in the name made the outcome of borderline proofs depend on the process id); concurrency is handled by
    # a per-process directory instead
    udir = os.path.join(WORK, 'units', 'p%d' % os.getpid())
    os.makedirs(udir, exist_ok=True)
    suffix = '_canary' if canary else ''
    out_rs = os.path.join(udir, f'{name}{suffix}.rs')
    t0 = time.time()
    try:
        em, text = extract.generate(unit_path)
    except extract.LostAnchor as ex:
        return {'unit': name, 'status': 'undecided', 'reason': f'lost anchor: {ex}'}
    except Exception as ex:  # generator bug / malformed source
        return {'unit': name, 'status': 'undecided', 'reason': f'extractor error: {type(ex).__name__}: {ex}'}
    canaries = {}
    if canary:
        text, canaries = add_canaries(em, text)
    open(out_rs, 'w').write(text)
    cmd = ['verus', out_rs, '--output-json', '--time', '--multiple-errors', '60', '--triggers-mode', 'silent', '--expand-errors']
    mvo = re.search(r'^@@#\s*verify-only:\s*([\w:]+)', extract.unit_text(unit_path), re.M)
    verify_only = only_fn or (mvo.group(1) if mvo else None)
    if verify_only:
        cmd += ['--verify-root', '--verify-function', verify_only]
    if seed is not None:
        cmd += ['--smt-option', f'smt.random_seed={seed}', '--smt-option', f'sat.random_seed={seed}']
    try:
        p = subprocess.run(cmd, capture_output=True, text=True, timeout=VERUS_TIMEOUT, cwd=udir)
    except subprocess.TimeoutExpired:
        return {'unit': name, 'status': 'undecided', 'reason': f'verus timeout after {VERUS_TIMEOUT}s'}
    finally:
        pass
    wall = time.time() - t0
    stderr = '\n'.join(l for l in p.stderr.split('\n') if not l.startswith('[rust_verify'))
    try:
        js = json.loads(p.stdout[p.stdout.index('{'):])
    except Exception:
        js = None
    res = {'unit': name, 'wall_s': wall, 'cmd': ' '.join(cmd), 'rs': out_rs, 'em': em, 'lines': text.split('\n'),
           'stderr': stderr, 'canaries': canaries, 'verify_only': verify_only}
    if js is None or 'verification-results' not in js:
        # rustc error before verification (type error after a source change, unsupported syntax ...)
        first = next((l for l in stderr.split('\n') if l.startswith('error')), 'no output')
        res.update(status='undecided', reason=f'unit does not compile under Verus: {first}')
        return res
    vr = js['verification-results']
    res['verified'] = vr.get('verified', 0)
    res['errors'] = vr.get('errors', 0)
    res['smt'] = []
    for mod in js.get('times-ms', {}).get('smt', {}).get('smt-run-module-times', []):
        for f in mod.get('function-breakdown', []):
            res['smt'].append(f)
    res['smt_total_ms'] = js.get('times-ms', {}).get('smt', {}).get('total', 0)
    if vr.get('encountered-vir-error'):
        first = next((l for l in stderr.split('\n') if l.startswith('error')), 'vir error')
        res.update(status='undecided', reason=f'construct outside the Verus dialect: {first}')
        return res
    res['failures'] = parse_failures(stderr, em, text.split('\n'))
    orphans = [f for f in res['failures'] if f['kind'] != 'other' and not f.get('fn')]
    if orphans:
        res.update(status='undecided', reason='a verifier failure could not be attributed to a function: ' + orphans[0]['raw'].split('\n')[0])
        return res
    others = [f for f in res['failures'] if f['kind'] == 'other']
    if others:
        res.update(status='undecided', reason='verifier error that is not a proof obligation: ' + others[0]['raw'].split('\n')[0])
        return res
    # a resource-limit hit leaves one function undecided; it only matters if that function has no
    # definite failure (Verus re-queries after the first failure and may run out of budget there)
    rl = [f for f in res['failures'] if f['kind'] == 'rlimit']
    definite_fns = {f['fn'] for f in res['failures'] if f['kind'] != 'rlimit'}
    res['undecided_fns'] = sorted({f['fn'] or '?' for f in rl if f['fn'] not in definite_fns})
    res['failures'] = [f for f in res['failures'] if f['kind'] != 'rlimit']
    if res['undecided_fns'] and not res['failures']:
        res.update(status='undecided', reason='solver resource limit exceeded in ' + ', '.join(short_fn(x) for x in res['undecided_fns']))
        return res
    clean = vr.get('success') or (vr.get('success') is None and not vr.get('encountered-error') and vr.get('errors', 1) == 0)
    if clean and not res['failures'] and res['verified'] > 0:
        res['status'] = 'ok'
    elif res['failures']:
        res['status'] = 'failed'
    else:
        res.update(status='undecided', reason='verus reported errors that could not be mapped to obligations')
    return res


def add_canaries(em, text):
    """Insert `assert(false)` as the first statement of every exec fn that has a contract.
    Each must be reported as failing; one that verifies means the function's precondition is
    contradictory (vacuous proof)."""
    lines = text.split('\n')
    canaries = {}
    inserts = []
    for fn, info in em.functions.items():
        if any(em.origin[i]['kind'] == 'attr' and 'external_body' in lines[i]
               for i in range(info['first_line'] - 1, min(info.get('last_line', info['first_line']), len(lines)))):
            continue
        # body starts at the first line of kind 'body' for this fn
        for idx in range(info['first_line'] - 1, info.get('last_line', info['first_line'])):
            o = em.origin[idx]
            if o['fn'] == fn and o['kind'] == 'body':
                if lines[idx].lstrip().startswith('{'):
                    inserts.append((idx, fn))
                break
    for idx, fn in sorted(inserts, reverse=True):
        ln = lines[idx]
        p = ln.index('{')
        lines[idx] = ln[:p + 1] + f' assert(false); /*CANARY*/' + ln[p + 1:]
        canaries[idx + 1] = fn
    return '\n'.join(lines), canaries


ERR_KINDS = [
    ('postcondition not satisfied', 'postcondition'),
    ('precondition not satisfied', 'precondition'),
    ('invariant not satisfied', 'invariant'),
    ('assertion failed', 'assertion'),
    ('possible arithmetic underflow/overflow', 'overflow'),
    ('possible division by zero', 'overflow'),
    ('decreases not satisfied', 'termination'),
    ('could not prove termination', 'termination'),
    ('loop must have a decreases clause', 'termination'),
    ('recursive function must have a decreases clause', 'termination'),
    ('esource limit', 'rlimit'),
    ('recommendation not met', 'recommends'),
]


def parse_failures(stderr, em, lines):
    """Split rustc-style diagnostics into failures mapped to (fn, labels)."""
    blocks, cur = [], None
    for ln in stderr.split('\n'):
        if re.match(r'^(error|warning|note)(\[[A-Z0-9]+\])?:', ln):
            cur = [ln]
            blocks.append(cur)
        elif cur is not None:
            cur.append(ln)
    out = []
    for bi, b in enumerate(blocks):
        head = b[0]
        if not head.startswith('error'):
            continue
        if head.startswith('error: aborting'):
            continue
        kind = next((k for pat, k in ERR_KINDS if pat in head), 'other')
        txt = '\n'.join(b)
        prim = None
        m = re.search(r'-->\s*\S+?:(\d+):(\d+)', txt)
        if m:
            prim = int(m.group(1))
        # extent of the failed clause: from the primary line to the last numbered gutter line before the
        # "failed this postcondition" marker (multi-line spans put the marker on an unnumbered line)
        clause_hi = prim
        last_num = None
        for ln in b[1:]:
            mm = re.match(r'\s*(\d+)\s*\|', ln)
            if mm:
                last_num = int(mm.group(1))
            if 'failed this postcondition' in ln or 'failed this invariant' in ln:
                if last_num and prim and last_num >= prim:
                    clause_hi = last_num
                break
        # --expand-errors: the first failing sub-conjunct is reported in a following note block
        expand_line = None
        expand_lines = []
        for nb in blocks[bi + 1:bi + 3]:
            if nb[0].startswith('error'):
                break
            if nb[0].startswith('note: diagnostics via expansion'):
                m2 = re.search(r'-->\s*\S+?:(\d+):(\d+)', '\n'.join(nb))
                if m2:
                    expand_line = int(m2.group(1))
                # the note shows the failing sub-expression and the chain of enclosing call sites
                for ln in nb[1:]:
                    mm = re.match(r'\s*(\d+)\s*\|', ln)
                    if mm:
                        expand_lines.append(int(mm.group(1)))
                break
        if kind == 'precondition':
            cl = None
            for i, ln in enumerate(b):
                if 'failed precondition' in ln:
                    for back in (i, i - 1, i - 2):
                        m2 = re.match(r'\s*(\d+)\s*\|', b[back]) if back >= 0 else None
                        if m2:
                            cl = int(m2.group(1))
                            break
                    break
            site = prim
            fn = em.origin[site - 1]['fn'] if site and site <= len(em.origin) else None
            if fn is None:
                # the call site is inside a macro definition: use the invocation site reported in the same block
                for ln in b[1:]:
                    mm = re.match(r'\s*(\d+)\s*\|', ln)
                    if mm and int(mm.group(1)) <= len(em.origin) and em.origin[int(mm.group(1)) - 1]['fn']:
                        fn = em.origin[int(mm.group(1)) - 1]['fn']
                        site = int(mm.group(1))
            callee = em.origin[cl - 1]['fn'] if cl and cl <= len(em.origin) else None
            out.append({'kind': kind, 'fn': fn, 'line': site, 'labels': [], 'props': [],
                        'callee': callee, 'clause': lines[cl - 1].strip() if cl else None,
                        'text': lines[site - 1].strip() if site else '', 'raw': txt})
            continue
        labels, props = [], set()
        fn = None
        if prim and prim <= len(em.origin):
            fn = em.origin[prim - 1]['fn']
            if fn is None:
                for ln in b[1:]:
                    mm = re.match(r'\s*(\d+)\s*\|', ln)
                    if mm and int(mm.group(1)) <= len(em.origin) and em.origin[int(mm.group(1)) - 1]['fn']:
                        fn = em.origin[int(mm.group(1)) - 1]['fn']
            cand = range(prim, clause_hi + 1)
            inside = [k for k in expand_lines if prim <= k <= clause_hi and k <= len(em.origin) and em.origin[k - 1]['label']]
            if inside:
                cand = sorted(set(inside))
            for k in cand:
                o = em.origin[k - 1]
                if o['label']:
                    labels.append(o['label'])
                    props.update(o['props'])
        out.append({'kind': kind, 'fn': fn, 'line': prim, 'labels': labels, 'props': sorted(props),
                    'text': lines[(expand_line or prim) - 1].strip() if prim else '', 'raw': txt})
    return out


def safety_props(em, fn):
    """Properties an unlabelled failure inside fn counts against (panic-freedom, overflow, callee
    preconditions, assertions, termination). Default C03; units may widen via `// @safety Cxx,Cyy` in a contract."""
    info = em.functions.get(fn)
    props = {'C03'}
    if info:
        for idx in range(info['first_line'] - 1, info.get('last_line', info['first_line'])):
            pass
    return props


def load_safety(em, lines):
    """Properties the *safety obligation* of a function counts for (no panic / overflow / out-of-bounds, callee
    preconditions, unlabelled invariants and hints, termination): C03, the properties named by `// @safety C03,C18`
    in the function's emitted text, and every property that labels a clause of the function -- a function that can
    violate a callee's precondition does not establish its clauses."""
    res = {}
    for fn, info in em.functions.items():
        props = {'C03'}
        for idx in range(info['first_line'] - 1, min(info.get('last_line', info['first_line']), len(lines))):
            m = re.search(r'//\s*@safety\s+([C0-9,]+)', lines[idx])
            if m:
                props |= set(m.group(1).split(','))
        for lab in info.get('labels', []):
            props |= set(lab['props'])
        res[fn] = props
    return res


def short_fn(fn):
    return fn.split('::', 1)[1] if fn and '::' in fn else fn


def obligations_of(run, prop):
    """(labelled clause obligations, safety obligations) of one unit for a property."""
    em, lines = run['em'], run['lines']
    safety = load_safety(em, lines)
    obs = []
    for fn, info in em.functions.items():
        if not fn_is_verified_here(run, fn):
            continue
        for lab in info['labels']:
            if prop in lab['props']:
                obs.append({'id': lab['label'], 'fn': fn, 'kind': 'clause', 'text': lab['text'], 'line': lab['line']})
        if prop in safety[fn] and has_body(em, fn):
            obs.append({'id': short_fn(fn) + '#safety', 'fn': fn, 'kind': 'safety',
                        'text': 'no panic / overflow / out-of-bounds; callee preconditions, assertions, loop invariants and termination measures hold'})
    return obs


def fn_is_verified_here(run, fn):
    """False for functions whose contract is only *assumed* in this unit (external_body; verified in a
    derived unit) and, in a verify-only unit, for every function but the selected one."""
    em, lines = run['em'], run['lines']
    info = em.functions[fn]
    vo = run.get('verify_only')
    if vo:
        parts = vo.split('::')
        if not (fn.endswith('::' + parts[-1]) and all(p in fn for p in parts[:-1])):
            return False
    for idx in range(info['first_line'] - 1, min(info.get('last_line', info['first_line']), len(lines))):
        o = em.origin[idx]
        if o['fn'] == fn and o['kind'] == 'attr' and 'external_body' in lines[idx]:
            return False
    return True


def has_body(em, fn):
    info = em.functions[fn]
    if info.get('lemma'):
        return False
    for idx in range(info['first_line'] - 1, info.get('last_line', info['first_line'])):
        o = em.origin[idx]
        if o['fn'] == fn and o['kind'] == 'body':
            return True
    return False


def failed_ids(run, prop):
    """Obligation ids of `prop` that failed in this unit run."""
    if run.get('status') not in ('failed',):
        return {}
    em, lines = run['em'], run['lines']
    safety = load_safety(em, lines)
    res = {}
    for f in run['failures']:
        if f['kind'] == 'recommends':
            continue
        if f['labels']:
            # a labelled clause (postcondition or labelled invariant)
            for lab in f['labels']:
                o = next((x for fn in em.functions.values() for x in fn['labels'] if x['label'] == lab), None)
                if o and prop in o['props']:
                    res.setdefault(lab, []).append(f)
        else:
            fn = f['fn']
            if fn and prop in safety.get(fn, {'C03'}):
                res.setdefault(short_fn(fn) + '#safety', []).append(f)
    return res


def scan_trusted(run):
    em = run['em']
    items = []
    for t in em.trusted:
        items.append(f"{run['unit']}: {t['what']}: {t['text']}")
    return items


FIXED_TRUST = [
    'rustc/LLVM compile the source text as Verus and Kani interpret it',
    'Verus 0.2026.09.13 + Z3 are sound; Kani 0.68 + CBMC 6.11 are sound',
    'extraction rewrite rules R1-R15 and the W1 reborrow (tools/rewrites.py, unit @@sub lines, DESIGN 2.1) preserve semantics',
    'usize is 64 bit (global size_of usize == 8); every allocation is <= isize::MAX bytes',
    'the Verus-side statement of each protocol-layer contract (verus/prelude/protocol.rs) is the one the Kani harness of the same name proves',
]


def load_known():
    path = os.path.join(VERIF, 'known_findings.txt')
    findings, fixed = [], []
    if os.path.exists(path):
        for ln in open(path):
            ln = ln.strip()
            if ln.startswith('finding:'):
                m = re.match(r'finding:\s*property=(\S+)\s+obligation=(\S+)\s+(.*)$', ln)
                if m:
                    findings.append({'property': m.group(1), 'obligation': m.group(2), 'what': m.group(3)})
            elif ln.startswith('fixed:'):
                fixed.append(ln)
    return findings, fixed


def load_baseline():
    p = os.path.join(VERIF, 'verus', 'baseline.json')
    if os.path.exists(p):
        return json.load(open(p))
    return {}


def main(argv):
    import argparse
    ap = argparse.ArgumentParser()
    ap.add_argument('prop')
    ap.add_argument('--tier', default=os.environ.get('VERIF_TIER', 'quick'))
    ap.add_argument('--replay')
    ap.add_argument('--rebaseline', action='store_true')
    a = ap.parse_args(argv)
    prop, tier = a.prop, a.tier
    seed = int(os.environ.get('VERIF_SEED', '0') or 0)
    t0 = time.time()
    if a.replay:
        return replay(a.replay)

    units = units_for(prop, tier)
    kharn = kanirun.harnesses_for(prop, tier)
    if not units and not kharn:
        print(f'UNDECIDED reason=no unit or harness carries an obligation for {prop}')
        return 2

    runs = []
    with cf.ThreadPoolExecutor(max_workers=8) as ex:
        futs = [ex.submit(run_verus, u, False) for u in units]
        cfuts = [ex.submit(run_verus, u, True) for u in units] if tier == 'thorough' else []
        kfut = ex.submit(kanirun.run, prop, tier, kharn) if kharn else None
        runs = [f.result() for f in futs]
        cruns = [f.result() for f in cfuts]
        kres = kfut.result() if kfut else None

    undecided = [r for r in runs if r['status'] == 'undecided']
    baseline = load_baseline().get(prop, {})
    findings, fixed = load_known()

    all_obs, failed, samples, fns, smt_ms, trusted, rewrite_counts = [], {}, [], set(), 0.0, [], {}
    soft_undecided = []
    solver_ms = {}
    for r in runs:
        if 'em' not in r:
            continue
        obs = obligations_of(r, prop)
        seen_ids = {o['id'] for o in all_obs}
        all_obs += [dict(o, unit=r['unit']) for o in obs if o['id'] not in seen_ids]
        for o in obs:
            fns.add(short_fn(o['fn']))
        for k, v in failed_ids(r, prop).items():
            failed.setdefault(k, []).extend(dict(f, unit=r['unit']) for f in v)
        # a function with an unlabelled failure (invariant, assertion, callee precondition, overflow) has no valid
        # proof: its other clauses were only shown *assuming* the failed condition -> not discharged for `prop`
        tainted = {f['fn'] for f in r.get('failures', []) if not f['labels'] and f['kind'] != 'recommends' and f['fn']} if r.get('status') == 'failed' else set()
        if tainted and any(o['fn'] in tainted for o in obs):
            soft_undecided.append({'unit': r['unit'], 'reason': 'an unlabelled obligation (invariant / assertion / callee precondition / overflow) fails in '
                                   + ', '.join(short_fn(x) for x in sorted(tainted)) + '; the clauses of this property there are proved only under that failed assumption'})
        ufn = set(r.get('undecided_fns', []))
        if ufn and any(o['fn'] in ufn for o in obs):
            soft_undecided.append({'unit': r['unit'], 'reason': 'solver resource limit exceeded in ' + ', '.join(short_fn(x) for x in ufn)})
        for f in r.get('smt', []):
            solver_ms[r['unit'] + '::' + f['function']] = f.get('time', 0)
        smt_ms += r.get('smt_total_ms', 0)
        trusted += scan_trusted(r)
        for k, v in r['em'].rewrite_counts.items():
            rewrite_counts[r['unit'] + '.' + k] = v
        for sc in r['em'].sub_counts:
            rewrite_counts[r['unit'] + '.sub:' + short_fn(sc['fn']) + ':' + sc['old'][:40]] = sc['count']

    # vacuity guards
    vac = []
    if all_obs == [] and not kharn:
        vac.append('zero obligations generated')
    for r in cruns:
        if r['status'] == 'undecided':
            vac.append(f"canary run undecided: {r.get('reason')}")
            continue
        failing_lines = {f['line'] for f in r.get('failures', []) if f['kind'] == 'assertion'}
        for line, fn in r['canaries'].items():
            info = r['em'].functions.get(fn, {})
            body = '\n'.join(r['lines'][info.get('first_line', 1) - 1:info.get('last_line', 1)])
            if '@unreachable-by-contract' in body:
                continue   # the function's precondition is *meant* to be unsatisfiable (documented in the unit)
            if not fn_is_verified_here(r, fn):
                continue   # verify-only (derived) unit: only the selected function is checked here
            if line not in failing_lines:
                vac.append(f"canary in {short_fn(fn)} verified: contradictory precondition")

    kob, kfailed = [], {}
    kinfo = {}
    if kres:
        kob = kres['obligations']
        kfailed = kres['failed']
        kinfo = kres
        if kres.get('undecided'):
            undecided.append({'unit': 'kani', 'reason': kres['undecided']})

    n_obs = len(all_obs) + len(kob)
    n_failed = len(failed) + len(kfailed)
    discharged = n_obs - n_failed if not undecided else 0

    if a.rebaseline:
        bl = load_baseline()
        if undecided or failed or kfailed or vac:
            print('refusing to rebaseline: run not clean', undecided, list(failed), list(kfailed), vac)
            return 2
        bl[prop] = {'obligations': sorted([o['id'] for o in all_obs] + [o['id'] for o in kob] + [b['obligation'] for b in kinfo.get('bounded', [])])}
        json.dump(bl, open(os.path.join(VERIF, 'verus', 'baseline.json'), 'w'), indent=1, sort_keys=True)
        print(f'baseline for {prop}: {len(bl[prop]["obligations"])} obligations')

    # ---- verdict
    rc = 0
    lines_out = []
    replay_path = None
    known_ids = {f['obligation'] for f in findings if f['property'] == prop}
    new_viol = {k: v for k, v in list(failed.items()) + list(kfailed.items()) if k not in known_ids}
    base_ids = set(baseline.get('obligations', []))
    # a definite failure of an obligation that was discharged on the pinned tree stands on its own: the units are
    # independent proofs, so another unit being undecided (resource limit, lost anchor) does not put it in doubt
    definite = {k: v for k, v in new_viol.items() if not base_ids or k in base_ids}
    if not undecided and soft_undecided and not new_viol:
        undecided = soft_undecided
    for f in findings:
        if f['property'] == prop and (f['obligation'] in failed or f['obligation'] in kfailed):
            lines_out.append(f"KNOWN-FINDING: property={prop} {f['obligation']} {f['what']}")
    if definite:
        replay_path = write_replay(prop, tier, new_viol, runs, kinfo)
        witness = any(v and isinstance(v, list) and v[0].get('replayed') for v in kfailed.values())
        tail = '' if witness else ' no-failing-input-found'
        lines_out.append(f'VIOLATION property={prop} replay={replay_path}{tail}')
        for k, v in new_viol.items():
            what = v[0].get('kind', 'failed') if v else 'failed'
            lines_out.append(f'  failed obligation {k} ({what})')
        for u in undecided:
            lines_out.append(f"  note: unit {u['unit']} undecided ({u.get('reason')})")
        rc = 1
    elif undecided:
        for u in undecided:
            lines_out.append(f"UNDECIDED property={prop} unit={u['unit']} reason={u.get('reason')}")
        rc = 2
    elif vac:
        for v in vac:
            lines_out.append(f'UNDECIDED property={prop} reason=vacuity guard: {v}')
        rc = 2
    elif new_viol:
        lines_out.append(f"UNDECIDED property={prop} reason=failing obligations are not in the baseline (never discharged on the pinned tree): {sorted(new_viol)}")
        rc = 2

    # a property decided only by bounded harnesses is bounded model checking, never "proof"
    level = 'proof' if n_obs > 0 else 'model_checking'
    ev = {
        'property_id': prop, 'tier': tier, 'seed': seed, 'level': level,
        'coverage': {
            'obligations': n_obs,
            'discharged': max(discharged, 0),
            'evaluations': len(kinfo.get('bounded', [])) + n_obs,
            'distinct_nontrivial': len([b for b in kinfo.get('bounded', []) if b.get('result') == 'held within bound']) + max(discharged, 0),
            'rule': 'one evaluation = one obligation (labelled contract clause / safety obligation / complete harness) or one bounded Kani harness over its stated symbolic domain; all are distinct by construction',
            'checker_cmd': '; '.join(sorted({re.sub(r'_\d+\.rs', '.rs', r['cmd']) for r in runs if 'cmd' in r} | set(kinfo.get('cmds', [])))),
            'trusted_base': FIXED_TRUST + sorted(set(trusted)) + kinfo.get('trusted', []),
            'functions_under_contract': sorted(fns) + kinfo.get('functions', []),
            'backends': {'verus+z3': len(all_obs), 'kani+cbmc': len(kob)},
            'solver_ms': {'verus_smt_total': smt_ms, 'per_function': solver_ms, 'kani_s': kinfo.get('wall_s', {})},
            'rewrite_counts': rewrite_counts,
            'bounded': kinfo.get('bounded', []),
            'complete_finite_domain': kinfo.get('complete', []),
            'samples': [{'obligation': o['id'], 'unit': o.get('unit'), 'function': short_fn(o['fn']), 'clause': o['text']}
                        for o in (all_obs[:6] + all_obs[len(all_obs) // 2: len(all_obs) // 2 + 3])] +
                       [{'obligation': o['id'], 'harness': o.get('harness'), 'what': o.get('text')} for o in kob[:6]] +
                       [{'bounded_harness': b.get('harness'), 'obligation': b.get('obligation'), 'bound': b.get('bound'), 'result': b.get('result')} for b in kinfo.get('bounded', [])[:6]],
            'failed': sorted(list(failed) + list(kfailed)),
            'canaries_checked': sum(len(r.get('canaries', {})) for r in cruns),
            'units': [r['unit'] for r in runs],
            'explanation': 'each obligation is one labelled contract clause (or the safety obligation of one function) of the real function text extracted from /repo on this run, or one Kani harness check on the real crate',
        },
        'assumptions': FIXED_TRUST + kinfo.get('assumptions', []),
        'wall_s': round(time.time() - t0, 2),
        'violations': len(new_viol) if rc == 1 else 0,
    }
    ev['coverage']['verdict'] = {0: 'held', 1: 'violation', 2: 'undecided'}[rc]
    if rc == 2:
        # an undecided run proves nothing: no obligation is reported as discharged
        ev['coverage']['discharged'] = 0
        ev['coverage']['distinct_nontrivial'] = 0
        ev['coverage']['undecided_because'] = [l for l in lines_out if l.startswith('UNDECIDED')][:10]
    # evidence/ describes /repo itself; runs against a scratch copy (VERIF_REPO, self-tests) write elsewhere
    evdir = os.path.join(VERIF, 'evidence') if REPO == '/repo' else os.path.join(WORK, 'evidence-scratch')
    os.makedirs(evdir, exist_ok=True)
    json.dump(ev, open(os.path.join(evdir, f'{prop}.json'), 'w'), indent=1)
    for ln in lines_out:
        print(ln)
    if rc == 0:
        print(f'OK property={prop} tier={tier} obligations={n_obs} discharged={discharged} '
              f'(verus {len(all_obs)}, kani {len(kob)}, bounded {len(kinfo.get("bounded", []))}) wall={ev["wall_s"]}s')
    # clean generated unit files of this process
    for r in runs + cruns:
        try:
            if rc == 0 and 'rs' in r:
                os.remove(r['rs'])
        except OSError:
            pass
    if rc == 0:
        shutil.rmtree(os.path.join(WORK, 'units', 'p%d' % os.getpid()), ignore_errors=True)
    return rc


def write_replay(prop, tier, viol, runs, kinfo):
    os.makedirs(os.path.join(VERIF, 'replays'), exist_ok=True)
    path = os.path.join(VERIF, 'replays', f'{prop}-{tier}-{int(time.time())}.json')
    items = []
    for ob, fs in viol.items():
        for f in fs:
            it = {'obligation': ob, 'kind': f.get('kind'), 'function': short_fn(f.get('fn')) if f.get('fn') else None,
                  'unit': f.get('unit'), 'verifier_output': f.get('raw'), 'clause_text': f.get('text')}
            if f.get('callee'):
                it['callee'] = short_fn(f['callee'])
                it['failed_precondition'] = f.get('clause')
            for k in ('harness', 'concrete_values', 'replay_test', 'replay_result', 'replayed'):
                if k in f:
                    it[k] = f[k]
            # function text as extracted
            run = next((r for r in runs if r.get('unit') == f.get('unit')), None)
            if run and f.get('fn') and f['fn'] in run['em'].functions:
                info = run['em'].functions[f['fn']]
                it['function_text_as_verified'] = '\n'.join(run['lines'][info['first_line'] - 1:info['last_line']])
            items.append(it)
    json.dump({'property': prop, 'tier': tier, 'repo': REPO, 'failed_obligations': items,
               'note': 'Verus gives no counterexample; where a Kani harness covers the same function its concrete values are replayed against the real crate (replayed=true)'},
              open(path, 'w'), indent=1)
    return path


def replay(path):
    d = json.load(open(path))
    prop = d['property']
    print(f"replay of {path}: property {prop}; re-running the check that produced it")
    return main([prop, '--tier', d.get('tier', 'quick')])


if __name__ == '__main__':
    try:
        rc = main(sys.argv[1:])
    except SystemExit:
        raise
    except BaseException as ex:  # a crash of the machinery is never an alarm
        import traceback
        traceback.print_exc()
        print(f'UNDECIDED reason=internal error in the check driver: {type(ex).__name__}: {ex}')
        rc = 2
    sys.exit(rc)
