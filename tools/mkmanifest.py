#!/usr/bin/env python3
"""Writes /verif/MANIFEST.json from the tables below (single place to keep claims and N/A reasons in sync)."""
import json
import os

VERIF = os.path.dirname(os.path.dirname(os.path.abspath(__file__)))

TECH_V = 'contract-based deductive verification: Verus (Z3) on functions extracted mechanically from /repo on every run'
TECH_K = 'contract harnesses on the real crate: Kani/CBMC, loop-free over the full input domain'

CLAIMED = {
    'C02': dict(
        cat='proof', ref='DESIGN 4/C02',
        text='Every function of stream::Parser (from_parser, parse, parse_payload, parse_head, consume_stream, compress, discard_stream, consume_output, set_stream, cmp_input_streams) carries a functional contract over the abstract view (parsed / raw / output queue) and the geometry invariant wf; Verus discharges every clause for all buffer contents, lengths, payload/padding counters and destination sizes. parse_payload: exactly min(payload, available[, room]) bytes move to the stream buffer or to the front of dest, in order, once; parse_head: header dispatch equals the specification-level head_action (stream / skip / hold-back / abort / cant-mpx / values); parse: one call equals the specification run s_run over the unread bytes (state, bytes consumed, bytes appended to the stream buffer, replies, end-of-stream flag, error), proved with a loop invariant relating the run from the initial state to the steps taken so far.',
        note='Proved per call (parse = s_run on the bytes available; every other method against its whole-view contract). Lemma layer (unit streamlemmas, machine-checked, pure): for ANY sequence of well-formed records of any kind - data records of the active stream, stale / foreign-id / unknown-type records (some of them answered), GetValues queries - followed by the terminating record, s_run delivers exactly the concatenation of the active stream bodies, owes exactly the replies of the answered records in arrival order, consumes every record entirely, reports end-of-stream exactly at the terminator and leaves it unconsumed (lemma_s_one_record, lemma_s_records, lemma_s_stream_until_end; hypotheses shown satisfiable by lemma_s_witness). Read-chunking invariance is a checked lemma as well (lemma_run_split, lemma_any_reads): for every state, every cut x ++ y of the unread bytes (through headers, payloads, padding or GetValues pairs) and every room in the caller buffer, the run over x followed by the run over (unread rest of x) ++ y equals the run over x ++ y, hence any sequence of reads equals one read of the concatenation. Composition only: consume_stream / compress / consume_output between calls keep the raw view (their contracts say so). For dest = Some(buf) the run-level clause covers counts/state/replies and the byte content written to buf is proved at step level (parse_payload, nested-prophecy clause). Trusted: copy_within = memmove, <&mut [u8] as Write>::write (both cross-checked bounded by Kani), RecordHeader::from_bytes contract (proved complete by Kani), 64-bit usize, allocations <= isize::MAX, rewrite rules R1-R13.',
        tech=TECH_V),
    'C03': dict(
        cat='proof', ref='DESIGN 4/C03',
        text='Panic-freedom and bookkeeping integrity of both parsers as proof obligations: every expect/unwrap/index/slice/split/arithmetic/assert!/debug_assert! site in the extracted functions is shown unreachable under the documented preconditions only, for arbitrary bytes; wf (the debug_assert_invars! geometry) is preserved by every method; loops carry decreases measures (termination); fatal header errors leave the parser on the offending header (sticky).',
        note='Chunking invariance is carried by the per-call functional contracts (state and outputs are functions of the abstract state and the bytes consumed; the unread tail is returned unchanged); for stream::Parser the inductive statement over all read cuts is machine-checked on the run specification (unit streamlemmas: lemma_run_split / lemma_any_reads, GetValues bodies via lemma_values_split); for the request parser likewise (unit reqsplit: lemma_rrun_split, lemma_any_reads_any_choices, incl. the implementation-chosen split of a partly available Params payload). usize fixed to 64 bit.',
        tech=TECH_V),
    'C04': dict(
        cat='proof', ref='DESIGN 4/C04',
        text='Per-step output contracts: each header/payload step appends exactly the reply the specification prescribes (UnknownType echoing type and id; EndRequest/CantMpxConn for a foreign BeginRequest; GetValuesResult exactly once when a non-empty GetValues body completes) and nothing otherwise; reported output counts equal bytes appended; consume_output drops exactly the consumed prefix. Reply encoders proved bit-exact by complete Kani harnesses.',
        note='GetValuesResult content (write_response) is an uninterpreted function on the Verus side and decided by bounded Kani harnesses (C17). Arrival order over whole histories: machine-checked on the run specifications (streamlemmas / reqsplit: the replies of any read schedule are the replies of one call, in order).',
        tech=TECH_V + '; ' + TECH_K),
    'C05': dict(
        cat='proof', ref='DESIGN 4/C05',
        text='Hand-off contracts: from_parser / into_input / into_request_parser / discard_stream / compress / parse state that the bytes handed on are exactly the unread suffix (raw view) in order, nothing lost or duplicated; parse never modifies or skips unread bytes.',
        note='At the wire level the hand-off points are machine-checked lemmas: lemma_preamble_leaves_rest (unit reqsplit: whatever follows the preamble on the connection stays unread and does not influence the request, however much look-ahead is buffered) and lemma_s_stream_until_end (unit streamlemmas: the stream run stops in front of the terminating header). The k-request corollary is the composition of these with the verified conversion contracts along a connection (the loop doing so is async code, C07: not applicable). Vec::from(Box<[u8]>)/truncate trusted (R7).',
        tech=TECH_V),
    'C15': dict(
        cat='proof', ref='DESIGN 4/C15',
        text='Complete (loop-free, full-domain) Kani harnesses on the real VarInt: write emits exactly enc(v) (1 byte < 128, else 4 bytes big-endian with the high bit) for all 2^31 values and all capacities, read decodes exactly when the announced bytes are present (UnexpectedEof otherwise) for all 5-byte buffers and truncations, conversions succeed exactly on 0..2^31-1, round-trip consumes exactly the encoded bytes.',
        note='Finite domain decided outright by CBMC (bit-precise). Trusted: Kani/CBMC, std Read/Write for slices as compiled.',
        tech=TECH_K),
    'C17': dict(
        cat='proof', ref='DESIGN 4/C17',
        text='make_request_epilogue verified by Verus (near-verbatim text, loop invariant over the output streams: one empty record per stream, then the EndRequest record, all with the request id). Complete Kani harnesses over the full domain: RecordHeader from_bytes/to_bytes (all 2^64 byte strings, version checked first), set_lengths (all u16), padding_bytes, is_management, all enum tables (all u8/u16), RequestFlags retain/validate, BeginRequest/EndRequest/UnknownType codecs and whole-record encoders, ExitStatus mapping.',
        note='write_response (GetValuesResult generation) and parse_name are bounded stand-ins on concrete cases, listed under coverage.bounded and never counted as proved: empty subset and MPXS_CONNS with a prefilled buffer (quick); one limit variable with max_conns = 7, = 10 (two digits, prefilled buffer) and = usize::MAX (20 digits) (thorough, about 3 min each). Responses with two or three number-valued variables at once - and with them the claim that the longest response fits RESPONSE_LEN - exceed the memory cap / 25 min of CBMC and are NOT covered. SmallVec targets are not covered (Vec only).',
        tech=TECH_K),
    'C18': dict(
        cat='proof', ref='DESIGN 4/C18',
        text='cmp_input_streams equals the position order of the role (Verus, loop invariant); set_stream accepts exactly select_ok (none, or an input stream type of the role not earlier than the active one), rejected selections change nothing, re-selection keeps data, a change discards buffered stream data, keeps unread raw bytes and demotes Stream to Skip; parse_head holds back end/later-stream headers and skips earlier/foreign ones; role tables exhaustively by Kani. The active stream is a member of the role (data-structure invariant).',
        note='F1 (set_stream with a non-input type panicked under debug assertions) fixed in /repo cd59af7; the obligation that exposed it is the precondition of cmp_input_streams at its call site in set_stream.',
        tech=TECH_V + '; ' + TECH_K),
}

CLAIMED.update({
    'C01': dict(
        cat='proof', ref='DESIGN 4/C01',
        text='Every function of the request-preamble parser (StateBuilder::into_skip, SkipState/GetValuesState/HeaderState/ParamsState::drive, ParamsStateInner::parse_buffered and parse_stream incl. the try_fill!/to_array!/try_head! macros, State::drive, Parser::parse/move_input/into_request/into_stream_parser) is verified by Verus against specification-level step functions written from the FastCGI specification (header_step, params_step, skip_step, values_step, composed by r_run): BeginRequest framing yields exactly the transmitted id/role/flags; cross-record pair reassembly (parse_buffered, both length encodings, every split point) inserts exactly the pairs of the consumed byte prefix, in order, once (log + decode_pairs(carry + consumed), carry = decode_rest(..)); State::drive takes exactly the steps of r_run; for all payload/padding lengths, cuts and buffer contents.',
        note='The environment map is abstracted to the ordered log of raw (name, value) pairs handed to it (R8): last-value-wins / case-insensitive lookup rest on std HashMap + C19, make_cgivar (lossy UTF-8 + uppercasing) is external. Lemma layer (unit reqlemmas, machine-checked): consuming the Params payload in ANY pieces gives log == log0 + decode_pairs(concatenation), carry == decode_rest(concatenation) (lemma_any_segmentation, lemma_segmentation_independent), and decode_pairs(enc_all(pairs)) == pairs (round trip). Read-chunking invariance over whole call histories is machine-checked on the run specification (unit reqsplit: lemma_rrun_split, lemma_any_reads_any_choices): for ANY sequence of non-empty reads and ANY implementation-chosen split point of a partly available Params payload in each call, interleaved management / unknown / foreign records included, the state reached, the bytes left unread and the replies owed are those of one call on all the bytes; in particular every read schedule ends in the same Done{request}. The wire-level statement is a checked theorem too (lemma_preamble, lemma_preamble_any_reads): BeginRequest + any well-formed records (Params data records cut anywhere with any padding, GetValues queries, unknown-type / foreign / stale records) + the empty Params record => Done{id, role, flags, log = decode_pairs(concatenated Params payloads)}, every byte consumed, exactly the owed replies, under every read schedule; the hypotheses are shown satisfiable by a concrete witness. Left as composition: decode_pairs(enc_all(pairs)) == pairs is lemma_roundtrip of unit reqlemmas; the side condition that the input buffer never fills up (StuckOnInput, C06); the map semantics behind the log (R8). Trusted: R-rewrites, wrappers listed in evidence, VarInt::read / from_bytes contracts (proved complete by Kani).',
        tech=TECH_V),
    'C06': dict(
        cat='proof', ref='DESIGN 4/C06',
        text='Config::aligned_bufsize: result >= 24, >= configured size, multiple of 8 and < size+8 (bit-vector proof) for every size <= usize::MAX-7; Parser::parse: an unfinished parser always offers a non-empty input buffer, StuckOnInput is entered exactly when the buffer is full and the specification run needs more input; maximal consumption: parse_buffered / parse_stream / ParamsState::drive leave payload unread only if carry + unread holds no complete pair.',
        note='Sufficiency: the maximal-consumption clauses (request.*.waits_only_if_incomplete, now also on Parser::parse: payload bytes stay unread only if carry + unread holds no complete pair) + the machine-checked closing lemmas of unit reqlemmas: lemma_retained_bound (for every prefix X of a well-formed payload enc_all(pairs) with |name|+|value| <= m, decode_rest(X) is shorter than 8 + m) and lemma_unread_bound (hence the unread bytes are < 8 + m <= B - 5 for m <= B - 13: the B-byte input buffer is never full). Outside a Params payload at most 15 bytes (an incomplete header / BeginRequest) stay unread (header_step / params_step specifications). Composition, not one theorem: applying the lemma at every call of a history; GetValues bodies are not covered by the documented bound (an oversized pair in a GetValues body can fill the buffer - the property speaks of the preamble pairs). For buffer_size > usize::MAX-7 (unallocatable) aligned_bufsize returns usize::MAX, which is not a multiple of 8: outside the property quantifier, stated in DESIGN.',
        tech=TECH_V),
    'C11': dict(
        cat='proof', ref='DESIGN 4/C11',
        text='Parser-level half: AbortRequest for the request in progress during Params -> exactly one EndRequest(RequestComplete, 0) for that id, request dropped, parser back to the initial state skipping the abort record body (params_step); during streams -> Err(AbortRequest), nothing consumed, header kept (parse_head); abort for any other id is skipped; Error::AbortRequest -> io::ErrorKind::ConnectionAborted, ExitStatus::ABORT == Complete("ABRT") (complete Kani harnesses).',
        note='Wire level, machine-checked on the run specifications the two parse functions are proved equal to. Request parser (unit reqsplit, spec/request_abort.rs): lemma_abort_record (an AbortRequest record for the request in progress, with ANY body and padding, owes exactly one EndRequest(RequestComplete, 0), returns to the initial state, is consumed whole), lemma_retained_abort_skipped (an abort header met between requests -- the one the stream parser kept -- is skipped silently), lemma_foreign_abort_ignored, lemma_abort_then_continue, lemma_abort_then_next_request (BeginRequest + any records + abort + a complete next preamble: Done{exactly the next request}, replies = replies before + the ONE EndRequest + replies after, under every read schedule and split choice). Stream parser (unit streamlemmas, spec/stream_abort.rs): lemma_abort_stops (error, nothing consumed: the header stays and the error repeats), lemma_stream_until_abort (after any well-formed records the bytes delivered before the error are exactly the bodies of the active stream sent before the abort -- a prefix of what the client sent; replies exactly those owed before it), lemma_foreign_abort_is_skipped; witnesses for non-vacuity. The async half (Token::run translating ConnectionAborted into ExitStatus::ABORT, close()/record_boundary() tolerating it, connection reuse) is outside the reach of both verifiers (see C07) and is an unchecked assumption of this claim.',
        tech=TECH_V + '; ' + TECH_K),
    'C16': dict(
        cat='proof', ref='DESIGN 4/C16',
        text='NVIter::next and size_hint (real text, instantiated at &[u8] and at &mut [u8]: both run the same extracted code against the same clauses, so the shared and the exclusive variant agree) and the Bytes impls for both slice kinds verified by Verus against pair_step for unbounded lengths: a complete pair is returned as two consecutive sub-slices and the iterator advances past it, otherwise None and the suffix is handed back untouched; checked arithmetic never panics. Machine-checked lemmas over the decoder specification: prefix monotonicity, fusedness, consumed-prefix law, count <= len/2, one-pair decoding. VarInt laws by complete Kani harnesses.',
        note='nv::write is a bounded Kani stand-in (the &[u8]/&mut [u8] agreement harness is kept as an additional bounded cross-check) (names <= 3 bytes plus the 127/128 boundary; inputs <= 9 bytes), listed under coverage.bounded and not counted as proved. InvalidInput for lengths > 2^31-1 is covered only through VarInt::try_from (a 2 GiB slice cannot be built).',
        tech=TECH_V + '; ' + TECH_K),
})

CLAIMED.update({
    'C19': dict(
        cat='model_checking', ref='DESIGN 4/C19',
        text='Bounded model checking (Kani/CBMC) of the real VarName implementation against a specification written in the harness: == is equality ignoring ASCII case, cmp is lexicographic order on the uppercased bytes and consistent with ==, names differing only in letter case hash identically (same write sequence into a recording hasher, across the 16-byte chunk boundary), interned names read back in canonical spelling. Bounded, so labelled model checking, not proof.',
        note='Bounds: ASCII names of at most 5-6 bytes for ==/cmp and 17-byte names (one full 16-byte hashing chunk plus one byte, one letter with flipped case; hashed bytes == uppercased name + 0xff) for the hash law (quick, 15 s in all); all lengths <= 18 for the hash law and four interned names (thorough, 90-140 s each). The normalising constructors (From<String>, From<Box<str>>, From<Cow::Owned>, from_mut_str, all through from_compact) are covered for 2- and 3-byte ASCII names (quick, 16 s + 34 s): the result reads back as the upper-cased input; the inline-asm barrier ensure_read of CompactString (a no-op returning its argument, unsupported by Kani) is stubbed by the identity - an assumption listed in the evidence. Not covered: non-ASCII names, the phf lookup behind FromStr / from_compact / From<&HeaderName>, arbitrary Hashers beyond "same write sequence". Strings are built with from_utf8_unchecked over ASCII-constrained bytes in the harness (validity by construction).',
        tech='bounded model checking of the real code (Kani/CBMC), stand-in: no contract within reach of Verus (str) or of a complete Kani harness'),
})

CLAIMED.update({
    'C20': dict(
        cat='proof', ref='DESIGN 4/C20',
        text='simple_redirect and write_headers, bodies verified near-verbatim by Verus (signature instantiated at the slice writer W := &mut [u8] the crate recommends for async use, and I := &[(&[u8], &[u8])]; w.write_all / w.write -> the contracted slice-writer functions; byte-string literals -> generated constant functions with their bytes as contract; as_bytes, map_or, eq_ignore_ascii_case, copy_from_slice and the StatusCode methods stay in place): with enough room the destination receives exactly `Location: <loc>\\n\\n`, resp. the status line, one `name: value` line per header in the given order and a blank line (loop invariant over the header list, nested-prophecy frame on the destination), the returned count is exactly the number of bytes written, and with too little room the result is an error, never a success report.',
        note='Instantiation (R10) instead of the generic impl Write / IntoIterator; io::Error abstracted to a unit error; http::StatusCode is a stand-in type: as_str() = the three decimal digits of a code 100..=999 and canonical_reason() = some registered phrase or none are the http crate\'s contracts, assumed; byte-string literals enter through generated constant functions whose contract lists the decoded bytes (R15, decoder trusted); NOT covered: http_headers (two-line adapter over http::Response: iterator adapters over the http crate\'s HeaderMap are outside Verus and CBMC does not finish one concrete response in 15 min) - a seeded change there (keys() + index instead of iter(): repeated header names lose values) is not detected; <&mut [u8] as Write>::write_all contract trusted (all-or-error). Other writers (Vec, BufWriter) are covered only through the Write contract.',
        tech=TECH_V),
})

NA = {
    'C07': 'async connection loop (Token::run / parse_request / close) under all transport schedules: async fn, Pin, Context and generic AsyncRead/AsyncWrite are outside the Verus dialect and Kani diverges on the real async code (probe: no result in 15 min); no per-call contract within reach expresses the property',
    'C08': 'liveness / absence of a wait-for cycle between server task and peer: a whole-history property under a waker-driven executor; contracts on single calls cannot express it',
    'C09': 'poll_read / poll_fill_buf state machines over all readiness patterns: same tool limits as C07 (the parser-level facts it relies on are proved under C02/C18)',
    'C10': 'record integrity under interleaved writers and partial vectored writes lives inline in poll_write behind Arc<Mutex>, Pin, IoSlice and a capturing closure: not mechanically extractable, Kani diverges (set_lengths / padding_bytes it relies on are proved under C17)',
    'C12': 'EOF / error injection at every transport call of the async loop: same tool limits as C07',
    'C13': 'semaphore permits and token counts under thread interleavings: Kani has no thread support, Verus would need its own permission types (a re-implementation)',
    'C14': 'shutdown ordering under thread interleavings of Arc drops and waker registration: same as C13',
}
PENDING = {
}


def main():
    checks = []
    for pid in sorted(CLAIMED):
        c = CLAIMED[pid]
        checks.append({
            'property_id': pid,
            'quick_cmd': f'./check {pid} --tier quick',
            'thorough_cmd': f'./check {pid} --tier thorough',
            'evidence_file': f'/verif/evidence/{pid}.json',
            'replay_cmd_template': f'./check {pid} --replay {{path}}',
            'engine': 'verus+kani',
            'level_claimed': {'category': c['cat'], 'text': c['text'], 'design_ref': c['ref']},
            'level_note': c['note'],
            'technique': c['tech'],
        })
    na = [{'property_id': k, 'reason': v} for k, v in sorted({**NA, **{k: v for k, v in PENDING.items() if k not in CLAIMED}}.items())]
    m = {
        'version': 1,
        'setup_cmd': './tools/setup.sh',
        'hooks': {
            'guard': 'none',
            'enable': 'no hooks: Verus units are extracted from the unmodified source text, Kani harnesses use the public API of the unmodified crate',
            'baseline_off_cmd': 'cd /repo && cargo test --workspace --no-fail-fast --offline',
            'source_commits': [],
            'add_only': True,
        },
        'engines': [
            {'name': 'verus', 'path': '/verif/verus', 'serves_properties': sorted(p for p in CLAIMED if 'Verus' in CLAIMED[p]['tech']),
             'kind_free_text': 'Verus 0.2026.09.13 single-file units generated by tools/extract.py from /repo on every run; contracts in verus/units/*.unit'},
            {'name': 'kani', 'path': '/verif/kani', 'serves_properties': sorted(p for p in CLAIMED if 'Kani' in CLAIMED[p]['tech']),
             'kind_free_text': 'Kani 0.68 harness crate with a path dependency on /repo (real crate, no extraction)'},
        ],
        'checks': checks,
        'not_applicable': na,
        'notes': 'exit 0 = all obligations discharged; exit 1 = VIOLATION (an obligation discharged on the pinned tree fails); exit 2 = undecided (lost anchor, construct outside the verifier dialect, resource limit, vacuity guard). The only /repo commit is the fix for finding F1 (cd59af7), recorded in known_findings.txt.',
    }
    json.dump(m, open(os.path.join(VERIF, 'MANIFEST.json'), 'w'), indent=1)
    print('MANIFEST.json:', len(checks), 'checks,', len(na), 'not applicable')


if __name__ == '__main__':
    main()
