"""Kani side of the check driver (filled in below)."""
import os, re, glob
HERE = os.path.dirname(os.path.abspath(__file__))
VERIF = os.path.dirname(HERE)

def harnesses_for(prop, tier):
    return []

def run(prop, tier, harnesses):
    return None
