"""Kani side of the check driver.

Harnesses live in /verif/kani/src/*.rs.  Each `#[kani::proof]` is preceded by a label line
    // @C15,C16 <obligation id> complete|bounded(<bound>) [thorough]
`complete`  : loop-free (or constant-bounded with unwinding assertions) over the full input domain = proof
`bounded`   : a bounded stand-in, reported under coverage.bounded and never counted as proved
`thorough`  : only run in the thorough tier
The crate depends on the repository by path (VERIF_REPO, default /repo): the real code is compiled and
symbolically executed, no extraction.
"""
import glob
import os
import re
import shutil
import subprocess
import time

HERE = os.path.dirname(os.path.abspath(__file__))
VERIF = os.path.dirname(HERE)
REPO = os.environ.get('VERIF_REPO', '/repo')
WORK = os.path.join(VERIF, '.work')
KANI_TIMEOUT = int(os.environ.get('VERIF_KANI_TIMEOUT', '7200'))

LABEL = re.compile(r'^//\s*@([C0-9,]+)\s+(\S+)\s+(complete|bounded\([^)]*\))(\s+thorough)?\s*$')


def all_harnesses():
    res = []
    for p in sorted(glob.glob(os.path.join(VERIF, 'kani', 'src', '*.rs'))):
        mod = os.path.splitext(os.path.basename(p))[0]
        lines = open(p).read().split('\n')
        pending = None
        for i, ln in enumerate(lines):
            m = LABEL.match(ln.strip())
            if m:
                pending = m
                continue
            m2 = re.match(r'\s*(?:pub\s+)?fn\s+(\w+)\s*\(', ln)
            if m2 and pending:
                res.append({'name': m2.group(1), 'module': mod, 'props': pending.group(1).split(','),
                            'id': 'kani:' + pending.group(2), 'mode': pending.group(3),
                            'tier': 'thorough' if pending.group(4) else 'quick', 'file': p})
                pending = None
    return res


def harnesses_for(prop, tier):
    return [h for h in all_harnesses() if prop in h['props'] and (tier == 'thorough' or h['tier'] == 'quick')]


def workdir(tag='kani'):
    """Harness crate instantiated against REPO; target dir is shared between runs."""
    d = os.path.join(WORK, tag if REPO == '/repo' else tag + '-alt')
    os.makedirs(d, exist_ok=True)
    tmpl = open(os.path.join(VERIF, 'kani', 'Cargo.toml.in')).read().replace('@REPO@', REPO)
    cur = os.path.join(d, 'Cargo.toml')
    if not os.path.exists(cur) or open(cur).read() != tmpl:
        open(cur, 'w').write(tmpl)
    lock_src = os.path.join(REPO, 'Cargo.lock')
    if not os.path.exists(lock_src):
        lock_src = '/repo/Cargo.lock'
    if not os.path.exists(os.path.join(d, 'Cargo.lock')):
        shutil.copy(lock_src, os.path.join(d, 'Cargo.lock'))
    src = os.path.join(d, 'src')
    if os.path.islink(src) or os.path.exists(src):
        if os.path.islink(src):
            os.unlink(src)
        else:
            shutil.rmtree(src)
    os.symlink(os.path.join(VERIF, 'kani', 'src'), src)
    return d


def _env():
    e = dict(os.environ)
    e['CARGO_NET_OFFLINE'] = 'true'
    return e


def _mem_cap():
    """Address-space cap for cargo-kani and its children (CBMC): a harness that needs more is reported as not decided
    (CBMC prints 'out of memory') instead of exhausting the sandbox (62 GB, no swap)."""
    import resource
    cap = int(os.environ.get('VERIF_KANI_MEM_GB', '24')) << 30
    resource.setrlimit(resource.RLIMIT_AS, (cap, cap))


def run(prop, tier, harnesses):
    t0 = time.time()
    names = [h['name'] for h in harnesses]
    cmd = ['cargo', 'kani', '-Z', 'stubbing', '-Z', 'function-contracts', '-Z', 'unstable-options',
           '--harness-timeout', '420s' if tier == 'quick' else '1500s', '--output-format', 'terse']
    for n in names:
        cmd += ['--harness', n]
    res = {'obligations': [], 'failed': {}, 'cmds': [' '.join(c for c in cmd if not c.startswith('--harness') and c not in names)[:400] + ' --harness <each of %d harnesses>' % len(names)],
           'bounded': [], 'complete': [], 'functions': [], 'trusted': [], 'assumptions': [], 'wall_s': {}}
    # serialise kani runs across concurrently running checks (shared target dir)
    lock = open(os.path.join(WORK, 'kani.lock'), 'w')
    try:
        import fcntl
        fcntl.flock(lock, fcntl.LOCK_EX)
        d = workdir()   # (under the lock: concurrent scratch runs share the -alt directory)
        p = subprocess.run(cmd, cwd=d, env=_env(), capture_output=True, text=True, timeout=KANI_TIMEOUT, preexec_fn=_mem_cap)
    except subprocess.TimeoutExpired:
        res['undecided'] = f'kani timeout after {KANI_TIMEOUT}s'
        return res
    finally:
        try:
            fcntl.flock(lock, fcntl.LOCK_UN)
        except Exception:
            pass
        lock.close()
    out = p.stdout + '\n' + p.stderr
    res['wall_s'] = {'kani_total': round(time.time() - t0, 1)}
    checked = set(re.findall(r'Checking harness (?:\w+::)*(\w+)\.\.\.', out))
    msum = re.search(r'Complete - (\d+) successfully verified harnesses, (\d+) failures, (\d+) total', out)
    failed_names = set(re.findall(r'Verification failed for - (?:\w+::)*(\w+)', out))
    if not msum:
        first = next((l for l in out.split('\n') if l.startswith('error')), out[-400:])
        res['undecided'] = f'kani did not complete: {first}'
        return res
    if int(msum.group(3)) != len(names) or not set(names) <= checked:
        res['undecided'] = f'kani ran {msum.group(3)} harnesses, expected {len(names)}'
        return res
    # split the (sequential) output per harness
    per = {}
    cur = None
    for ln in out.split('\n'):
        m = re.match(r'Checking harness (?:\w+::)*(\w+)\.\.\.', ln)
        if m:
            cur = m.group(1)
            per[cur] = []
        elif cur:
            per[cur].append(ln)
    # vacuity: harnesses carry cover!(..) statements; in a harness that *verifies*, an unsatisfied cover
    # means its assumptions exclude the interesting inputs
    for n, lns in per.items():
        txt = '\n'.join(lns)
        if n in failed_names:
            continue
        for a, b in re.findall(r'\*\* (\d+) of (\d+) cover properties satisfied', txt):
            if a != b:
                res['undecided'] = f'vacuity guard: a cover property in harness {n} is unsatisfiable'
                return res
        mt = re.search(r'Verification Time: ([0-9.]+)s', txt)
        if mt:
            res['wall_s'][n] = float(mt.group(1))
    # a harness CBMC gave up on (time / memory) is undecided, never a violation
    timed_out = {n for n, lns in per.items() if any('CBMC timed out' in l or 'out of memory' in l.lower() for l in lns)}
    # ... and so is a harness reported as failed without any failed check (CBMC killed / crashed)
    for n in list(failed_names):
        txt = '\n'.join(per.get(n, []))
        fc = [l for l in per.get(n, []) if l.startswith('Failed Checks:')]
        if not fc and not re.search(r'\*\* [1-9]\d* of \d+ failed', txt):
            timed_out.add(n)
        # a reachable construct Kani does not support is a tool limit, not a failed check
        elif fc and all('not currently supported by Kani' in l for l in fc):
            timed_out.add(n)
    failed_names -= timed_out
    for n in sorted(timed_out):
        hh = next((h for h in harnesses if h['name'] == n), None)
        if hh and hh['mode'] == 'complete':
            res['undecided'] = f'kani harness {n} did not complete (time or memory limit, or CBMC killed)'
    for h in harnesses:
        if h['name'] in timed_out and h['mode'] != 'complete':
            res['bounded'].append({'obligation': h['id'], 'bound': h['mode'], 'harness': h['name'], 'result': 'not decided: CBMC time limit'})
            continue
        ob = {'id': h['id'], 'harness': h['name'], 'text': f"{h['module']}::{h['name']} ({h['mode']})", 'mode': h['mode']}
        if h['mode'] == 'complete':
            res['complete'].append(h['id'])
            res['obligations'].append(ob)
        else:
            res['bounded'].append({'obligation': h['id'], 'bound': h['mode'], 'harness': h['name'],
                                   'result': 'failed' if h['name'] in failed_names else 'held within bound'})
            # bounded stand-ins are reported but never counted as proved obligations
        if h['name'] in failed_names:
            f = {'kind': 'kani check FAILURE', 'harness': h['name'], 'fn': None, 'unit': 'kani',
                 'raw': _extract_failure('\n'.join(per.get(h['name'], [])), h['name']), 'text': ob['text']}
            if len(res['failed']) < 2:
                f.update(playback(h))
            res['failed'][h['id']] = [f]
    if any(h['name'].startswith('normalising_constructors') for h in harnesses):
        res['trusted'].append('kani stub: compact_str::repr::ensure_read (a no-op inline-asm barrier that returns its argument) replaced by the identity function in the C19 constructor harnesses (Kani does not support inline asm)')
    res['assumptions'] = ['kani harness inputs are kani::any() over the whole type unless the label says bounded',
                          'CBMC unwinding assertions are on: an insufficient unwind bound fails instead of passing']
    return res


def _extract_failure(out, name):
    lines = out.split('\n')
    keep = [l for l in lines if 'Failed Checks' in l or 'FAILURE' in l or 'File:' in l]
    return '\n'.join(keep[:40])


def playback(h):
    """Re-run one failing harness with concrete playback and execute the generated test natively
    against the real crate (cargo kani playback)."""
    info = {}
    d = os.path.join(WORK, 'kani-replay-%d' % os.getpid())
    wd = os.path.join(WORK, 'kani' if REPO == '/repo' else 'kani-alt')   # (not workdir(): no rewrite outside the lock)
    try:
        if os.path.exists(d):
            shutil.rmtree(d)
        os.makedirs(d)
        tmpl = open(os.path.join(VERIF, 'kani', 'Cargo.toml.in')).read().replace('@REPO@', REPO)
        open(os.path.join(d, 'Cargo.toml'), 'w').write(tmpl)
        shutil.copy(os.path.join(wd, 'Cargo.lock'), os.path.join(d, 'Cargo.lock'))
        shutil.copytree(os.path.join(VERIF, 'kani', 'src'), os.path.join(d, 'src'))
        env = _env()
        env['CARGO_TARGET_DIR'] = os.path.join(wd, 'target')
        cmd = ['cargo', 'kani', '-Z', 'stubbing', '-Z', 'function-contracts', '-Z', 'concrete-playback',
               '--concrete-playback=inplace', '--harness', h['name'], '--output-format', 'terse']
        p = subprocess.run(cmd, cwd=d, env=env, capture_output=True, text=True, timeout=900)
        src = open(os.path.join(d, 'src', os.path.basename(h['file']))).read()
        tests = re.findall(r'(#\[test\]\s*fn (kani_concrete_playback_\w+)\(\) \{.*?\n\})', src, re.S)
        if not tests:
            info['replay_result'] = 'kani produced no concrete playback test'
            return info
        cmd2 = ['cargo', 'kani', 'playback', '-Z', 'concrete-playback', '--', 'kani_concrete_playback_' + h['name']]
        p2 = subprocess.run(cmd2, cwd=d, env=env, capture_output=True, text=True, timeout=900)
        out2 = p2.stdout + p2.stderr
        failing = set(re.findall(r'test (?:\w+::)*(kani_concrete_playback_\w+) \.\.\. FAILED', out2))
        chosen = [t for t in tests if t[1] in failing] or tests[:1]
        info['replay_test'] = chosen[0][0]
        info['concrete_values'] = re.findall(r'//\s*(.+)\n\s*vec!\[([0-9, ]*)\]', chosen[0][0])
        info['replay_result'] = '\n'.join(l for l in out2.split('\n') if 'panicked' in l or 'test result' in l or 'FAILED' in l)[:2000]
        info['replayed'] = bool(failing)
    except Exception as ex:  # replay is best effort; the violation is reported regardless
        info['replay_result'] = f'playback error: {type(ex).__name__}: {ex}'
    finally:
        shutil.rmtree(d, ignore_errors=True)
    return info
