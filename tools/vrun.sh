#!/bin/sh
# usage: vrun.sh <unit> : generate + verify, print diagnostics
cd /verif
mkdir -p .work/units
python3 tools/extract.py verus/units/$1.unit .work/units/$1.rs .work/units/$1.meta.json || exit 2
shift_args=""
VO=$(grep -o "^@@# verify-only: .*" verus/units/$1.unit | sed "s/.*: //"); [ -n "$VO" ] && VERUS_EXTRA="$VERUS_EXTRA --verify-root --verify-function $VO"
verus .work/units/$1.rs --multiple-errors 20 --triggers-mode silent $VERUS_EXTRA 2>&1 | grep -v '^\[rust_verify' | grep -v '^    [a-z_]*: ' | head -${LINES_MAX:-120}
