#!/usr/bin/env python3
"""Mechanical extractor: /repo source text  ->  single-file Verus unit.

A unit description (verus/units/<name>.unit) is a line-oriented file.  Lines starting with
`@@` are directives, all other lines are payload of the directive above them.

  @@verbatim                    payload copied as is (Verus text: spec fns, lemmas, trusted wrappers)
  @@include <path>              file under /verif/verus copied as is
  @@source <path under repo>    selects the source file for the following items
  @@item <kind> <name>          copy item (struct|enum|type|const|static|macro|fn) verbatim (+rewrites)
  @@impl <header>               open an impl/trait block (header text is taken from the source)
  @@trait <name>                open a trait block
  @@fn <name>                   copy fn from current block (or module level when no block is open)
  @@end                         close the current impl/trait block
  sub-directives of an item / fn (apply to the most recent @@fn / @@item fn):
  @@contract                    payload spliced between signature and body (requires/ensures/decreases)
  @@loop <n>                    payload spliced between the n-th loop header and its body
  @@hint start | loopbody <n>        payload at the start of the body / of the n-th loop body (no statement anchor)
  @@hint <before|after> <k> <text>   payload spliced before/after the k-th occurrence of verbatim
                                statement text in the body (whitespace-normalised match)
  @@sub <k> <old> ==> <new>     item-specific declared rewrite of the k-th (or 'all') occurrence of
                                verbatim text (used for the abstraction rules R8/R9); counted.
  @@retname <ident>             name for the return value (default r)
  @@attr <text>                 attribute line emitted in front of the item (e.g. #[verifier::external_body])

Everything copied from the source goes through rewrites.apply_all(); each rule reports how often it
fired.  The generator records, for every emitted line, where it came from, so that verifier
diagnostics can be mapped back to (function, clause label).
"""
import json
import os
import re
import sys

sys.path.insert(0, os.path.dirname(os.path.abspath(__file__)))
import rsscan  # noqa: E402
import rewrites  # noqa: E402

VERIF = os.path.dirname(os.path.dirname(os.path.abspath(__file__)))
REPO = os.environ.get('VERIF_REPO', '/repo')


class LostAnchor(Exception):
    pass


class Directive:
    def __init__(self, name, arg, lineno):
        self.name, self.arg, self.lineno = name, arg, lineno
        self.payload = []


def expand_parts(text):
    """`@@part <file> [nolabels]`: textual inclusion of unit directives shared between units; with
    `nolabels` the obligation labels are stripped (the part's obligations are counted in another unit)."""
    def rep(m):
        t = open(os.path.join(VERIF, 'verus', m.group(1))).read().rstrip('\n')
        if m.group(2):
            t = re.sub(r'[ \t]*//\s*@[C0-9,]+\s+\S+[ \t]*$', '', t, flags=re.M)
            t = re.sub(r'^@@include (spec/nv_lemmas\.rs)$', r'@@use \1', t, flags=re.M)
        return t
    return re.sub(r'^@@part\s+(\S+)(\s+nolabels)?\s*$', rep, text, flags=re.M)


def unit_text(path):
    """Unit text; `@@derive <unit> <fn> <hints file> <rlimit>` = the other unit with the external_body
    attribute of <fn> replaced by the proof hints (the function's body is verified in this unit against
    the same contract text, and assumed under that contract in the other one)."""
    text = open(path).read()
    text = expand_parts(text)
    mr = re.search(r'^@@derive-replace\s+(\S+)\s+(\S+)\s+(\S+)(?:\s+(.+?))?\s*$', text, re.M)
    if mr:
        # the other unit, with the whole `@@fn <name> ...` block (contract, loop invariants, hints) of one function
        # replaced: the same extracted function body is verified here against a second contract
        base = expand_parts(open(os.path.join(os.path.dirname(path), mr.group(1))).read())
        block = open(os.path.join(VERIF, 'verus', mr.group(3))).read().rstrip('\n') + '\n'
        ctx = r'(@@impl ' + re.escape(mr.group(4)) + r'\n(?:(?!@@end\n)[\s\S])*?)' if mr.group(4) else '()'
        pat = re.compile(ctx + r'@@fn ' + re.escape(mr.group(2)) + r'\n(?:(?!@@fn |@@end\n)[\s\S])*')
        if not pat.search(base):
            raise SystemExit(f'{path}: @@derive-replace target fn {mr.group(2)} not found in {mr.group(1)}')
        base = pat.sub(lambda mm: mm.group(1) + block, base, count=1)
        head = '\n'.join(l for l in text.split('\n') if l.startswith('@@#'))
        return head + '\n' + base
    m = re.search(r'^@@derive\s+(\S+)\s+(\S+)\s+(\S+)\s+(\d+)(?:\s+(.+?))?\s*$', text, re.M)
    if not m:
        return text
    base = expand_parts(open(os.path.join(os.path.dirname(path), m.group(1))).read())
    hints = open(os.path.join(VERIF, 'verus', m.group(3))).read().rstrip('\n')
    # optional 5th field: the @@impl header the fn lives in (to disambiguate equal fn names)
    ctx = r'@@impl ' + re.escape(m.group(5)) + r'\n(?:(?!@@end\n)[\s\S])*?' if m.group(5) else ''
    pat = re.compile(r'(' + ctx + r'@@fn ' + re.escape(m.group(2)) + r'\n)@@attr #\[verifier::external_body\][^\n]*\n')
    if not pat.search(base):
        raise SystemExit(f'{path}: @@derive target fn {m.group(2)} with external_body not found in {m.group(1)}')
    base = pat.sub(lambda mm: mm.group(1) + f'@@attr #[verifier::rlimit({m.group(4)})]\n' + hints + '\n', base, count=1)
    head = '\n'.join(l for l in text.split('\n') if l.startswith('@@#'))
    return head + '\n' + base


def parse_unit(path):
    ds = []
    cur = None
    for n, raw in enumerate(unit_text(path).split('\n'), 1):
        if raw.startswith('@@#'):
            continue
        if raw.startswith('@@'):
            parts = raw[2:].split(None, 1)
            cur = Directive(parts[0], parts[1].strip() if len(parts) > 1 else '', n)
            ds.append(cur)
        else:
            if cur is None:
                if raw.strip() == '' or raw.startswith('#'):
                    continue
                raise SystemExit(f'{path}:{n}: payload before first directive')
            cur.payload.append(raw)
    return ds


class Source:
    cache = {}

    def __init__(self, rel):
        self.rel = rel
        p = os.path.join(REPO, rel)
        if not os.path.exists(p):
            raise LostAnchor(f'source file missing: {rel}')
        self.text = open(p).read()
        self.masked = rsscan.mask(self.text)

    @classmethod
    def get(cls, rel):
        if rel not in cls.cache:
            cls.cache[rel] = Source(rel)
        return cls.cache[rel]


class Emitter:
    def __init__(self, unit):
        self.unit = unit
        self.lines = []          # output lines
        self.origin = []         # per line: dict(fn=..., label=..., kind=...)
        self.functions = {}      # qualified fn name -> dict(labels=[...], source=..., first_line, last_line)
        self.rewrite_counts = {}
        self.sub_counts = []
        self.trusted = []        # textual scan results

    def emit(self, text, fn=None, kind='code'):
        for ln in text.split('\n'):
            if kind == 'verbatim':
                # hand-written lemmas / verified helper fns: attribute their labelled clauses to `lemma::<name>`
                mf = re.match(r'\s*(?:pub\s+)?(?:broadcast\s+)?(?:open\s+|closed\s+)?(proof\s+|spec\s+)?fn\s+(\w+)', ln)
                if mf:
                    self.vfn = 'lemma::' + mf.group(2)
                    if (mf.group(1) or '').strip() != 'spec':
                        self.functions.setdefault(self.vfn, {'labels': [], 'source': 'verif', 'first_line': len(self.lines) + 1,
                                                             'last_line': len(self.lines) + 1, 'lemma': True})
                    else:
                        self.vfn = None
                fn = getattr(self, 'vfn', None)
                if fn and fn in self.functions:
                    self.functions[fn]['last_line'] = len(self.lines) + 1
            self.lines.append(ln)
            m = re.search(r'//\s*@(\S+)\s+(\S+)\s*$', ln)
            self.origin.append({'fn': fn, 'kind': kind,
                                'props': m.group(1).split(',') if m else None,
                                'label': m.group(2) if m else None})
            if m and fn:
                self.functions[fn]['labels'].append(
                    {'label': m.group(2), 'props': m.group(1).split(','), 'line': len(self.lines),
                     'text': ln.split('//')[0].strip()})


def _norm(s):
    return re.sub(r'\s+', ' ', s.strip())


def find_nth(hay_masked, hay, needle, k, what, fuzzy=False):
    """Span of the k-th (1-based) whitespace-insensitive occurrence of needle in hay.
    fuzzy (proof hints only): if the exact statement is gone (it was edited), fall back to the statement
    that starts with the same first tokens (>= 3) -- a hint is proof guidance, its position cannot make an
    unsound proof, and the edited statement is exactly where the verifier should now be looking."""
    toks = [re.escape(t) for t in re.findall(r'[A-Za-z0-9_]+|\S', needle)]
    # allow arbitrary whitespace between tokens
    pat = r'\s*'.join(toks)
    ms = [m for m in re.finditer(pat, hay)]
    if len(ms) >= k:
        return ms[k - 1].start(), ms[k - 1].end(), len(ms)
    if fuzzy and len(ms) == 0:
        for n in range(len(toks) - 1, 2, -1):
            ms = [m for m in re.finditer(r'\s*'.join(toks[:n]), hay)]
            if len(ms) >= k:
                s0 = ms[k - 1].start()
                # extend to the end of the statement (next ';' or '{' at the same nesting level)
                depth, e = 0, ms[k - 1].end()
                while e < len(hay):
                    c = hay[e]
                    if c in '([':
                        depth += 1
                    elif c in ')]':
                        depth -= 1
                    elif c in ';{' and depth <= 0:
                        e += 1
                        break
                    e += 1
                return s0, e, len(ms)
    raise LostAnchor(f'{what}: anchor `{needle}` occurrence {k} not found ({len(ms)} present)')


def loop_header_positions(masked_body):
    """Positions of the '{' opening each loop body, in textual order."""
    res = []
    for m in re.finditer(r'\b(while|loop|for)\b', masked_body):
        # `for` in `for<'a>` HRTB or impl-for does not occur inside fn bodies we handle
        kw = m.group(1)
        if kw == 'loop':
            b = masked_body.index('{', m.end())
        else:
            b = rsscan.find_body_open(masked_body, m.end())
        if b < 0:
            continue
        res.append(b)
    return res


def flatten_contract(text):
    """Split blocks
           ANT ==> {            |   ({
               let x = ..;      |       let x = ..;
               &&& c1 // @P l1  |       &&& c1 // @P l1
               &&& c2 // @Q l2  |       &&& c2 // @Q l2
           },                   |   }),
    into one top-level clause per `&&&` conjunct (the lets are repeated).  Purely syntactic; the conjunction is
    unchanged.  It makes the verifier report each labelled conjunct on its own, so a failure is attributed to the
    properties of that conjunct only, with or without --expand-errors."""
    lines = text.split('\n')
    out, i = [], 0
    while i < len(lines):
        ln = lines[i]
        m = re.match(r'^(\s*)(.*==> \{|\(\{)\s*$', ln)
        if not m:
            out.append(ln)
            i += 1
            continue
        ind = m.group(1)
        close_pat = re.compile(r'^' + re.escape(ind) + r'\}\)?,\s*(//.*)?$')
        j = i + 1
        while j < len(lines) and not close_pat.match(lines[j]):
            j += 1
        if j >= len(lines):
            out.append(ln)
            i += 1
            continue
        body = lines[i + 1:j]
        inner = ind + '    '
        lets, conj, cur, ok = [], [], None, True
        k = 0
        while k < len(body):
            b = body[k]
            if b.startswith(inner + '&&&'):
                cur = [b]
                conj.append(cur)
            elif cur is not None:
                cur.append(b)
            elif b.startswith(inner + 'let ') or (lets and not lets[-1].rstrip().endswith(';')):
                lets.append(b)
            elif b.strip() == '' or b.strip().startswith('//'):
                lets.append(b)
            else:
                ok = False
                break
            k += 1
        if not ok or len(conj) < 2:
            out.append(ln)
            i += 1
            continue
        is_paren = m.group(2) == '({'
        for c in conj:
            first = c[0].replace('&&&', '   ', 1)
            if is_paren:
                out.append(ind + '({')
                out.extend(lets)
                out.append(first)
                out.extend(c[1:])
                out.append(ind + '}),')
            else:
                out.append(ln)
                out.extend(lets)
                out.append(first)
                out.extend(c[1:])
                out.append(ind + '},')
        i = j + 1
    return '\n'.join(out)


_ESC = {'n': 10, 'r': 13, 't': 9, '\\': 92, '0': 0, "'": 39, '"': 34}


def decode_byte_literal(body):
    """Bytes of a Rust byte-string literal body (between the quotes). Unsupported escapes -> LostAnchor."""
    out, i = [], 0
    while i < len(body):
        c = body[i]
        if c != '\\':
            if ord(c) > 127 or c in '\r\n':
                raise LostAnchor(f'byte-string literal with a raw non-ASCII / newline character: b"{body}"')
            out.append(ord(c))
            i += 1
            continue
        e = body[i + 1] if i + 1 < len(body) else ''
        if e in _ESC:
            out.append(_ESC[e])
            i += 2
        elif e == 'x' and re.match(r'[0-9a-fA-F]{2}', body[i + 2:i + 4]):
            out.append(int(body[i + 2:i + 4], 16))
            i += 4
        else:
            raise LostAnchor(f'byte-string literal with an escape the extractor does not decode: b"{body}"')
    return out


def byte_literals(em, text, qual):
    """R15: every byte-string literal b"..." of the function is replaced by a call of a generated constant
    function whose contract spells out the literal's bytes (decoded here, mechanically): Verus accepts the literal
    but knows nothing about its contents.  `*b"..."` (array by value) and `b"..."` (coerced to a slice) get
    different wrappers.  The wrapper's body is the literal itself."""
    seen = em.__dict__.setdefault('bytelit_fns', {})

    def repl(m):
        star, body = m.group(1), m.group(2)
        bs = decode_byte_literal(body)
        key = ('arr' if star else 'lit', body)
        if key not in seen:
            name = ('barr_' if star else 'blit_') + ''.join('%02x' % b for b in bs)[:40] + '_%d' % len(bs)
            seen[key] = name
            elems = ', '.join((('%du8' % b) if k == 0 else str(b)) for k, b in enumerate(bs))
            view = f'seq![{elems}]' if bs else 'Seq::<u8>::empty()'
            if star:
                em.emit(f'#[verifier::external_body]\npub fn {name}() -> (r: [u8; {len(bs)}])\n    ensures r@ == {view},\n{{ *b"{body}" }}', kind='item')
            else:
                em.emit(f'#[verifier::external_body]\npub fn {name}() -> (r: &\'static [u8])\n    ensures r@ == {view},\n{{ b"{body}" }}', kind='item')
            em.rewrite_counts['R15'] = em.rewrite_counts.get('R15', 0)
        em.rewrite_counts['R15'] = em.rewrite_counts.get('R15', 0) + 1
        return seen[key] + '()'

    text = re.sub(r'(?<![A-Za-z0-9_])(\*\s*)?b"((?:[^"\\]|\\.)*)"', repl, text)
    # a constant item inside the body initialised by such a literal becomes a let (its initialiser is now a call)
    b = text.find('{')
    return text[:b] + re.sub(r'\bconst\s+(\w+)\s*:', r'let \1:', text[b:])


def build_fn(em, src, span, qual, subs, retname='r', declared_only=False):
    """Emit function text = signature (+ named return) + contract + body with splices."""
    text = src.text[span[0]:span[1]]
    text = rsscan.strip_comments(text)
    # item-specific declared substitutions first (they operate on the original, comment-stripped text)
    for d in subs.get('sub', []):
        m = re.match(r'(\d+|all|any)\s+(.*?)\s+==>\s*(.*)$', d.arg, re.S)
        if not m:
            raise SystemExit(f'bad @@sub at line {d.lineno}')
        k, old, new = m.group(1), m.group(2), m.group(3)
        if d.payload:
            new = (new + '\n' + '\n'.join(d.payload)).strip('\n')
        if k in ('all', 'any'):
            n = 0
            pos = 0
            while True:
                try:
                    s, e, _ = find_nth(None, text[pos:], old, 1, qual)
                except LostAnchor:
                    break
                text = text[:pos + s] + new + text[pos + e:]
                pos = pos + s + len(new)
                n += 1
                if n > 50:
                    raise SystemExit('runaway @@sub all')
            if n == 0 and k == 'all':
                raise LostAnchor(f'{qual}: @@sub anchor `{old}` not found')
            em.sub_counts.append({'fn': qual, 'old': old, 'count': n})
        else:
            s, e, _ = find_nth(None, text, old, int(k), qual)
            text = text[:s] + new + text[e:]
            em.sub_counts.append({'fn': qual, 'old': old, 'count': 1})

    if 'bytelits' in subs:
        text = byte_literals(em, text, qual)
    text, counts = rewrites.apply_all(text)
    for k, v in counts.items():
        em.rewrite_counts[k] = em.rewrite_counts.get(k, 0) + v
    text = '\n'.join(l for l in text.split('\n') if l.strip() != '')
    masked = rsscan.mask(text)
    b = rsscan.find_body_open(masked, 0)
    if b < 0:
        sig, body = text[:masked.rindex(';')].rstrip(), None
    else:
        sig, body = text[:b].rstrip(), text[b:]

    # named return value
    msig = rsscan.mask(sig)
    arrow = None
    depth = 0
    for i, c in enumerate(msig):
        if c in '([':
            depth += 1
        elif c in ')]':
            depth -= 1
        elif msig.startswith('->', i) and depth == 0 and arrow is None:
            arrow = i
    if arrow is not None:
        where = re.search(r'\bwhere\b', msig[arrow:])
        endt = arrow + where.start() if where else len(sig)
        rtype = sig[arrow + 2:endt].strip()
        if not rtype.startswith('(' + retname + ':'):
            sig = sig[:arrow] + f'-> ({retname}: {rtype})' + (' ' + sig[endt:] if where else '')

    em.functions[qual] = {'labels': [], 'source': src.rel, 'first_line': len(em.lines) + 1}
    for a in subs.get('attr', []):
        em.emit(a.arg, fn=qual, kind='attr')
    em.emit(sig, fn=qual, kind='sig')
    for d in subs.get('contract', []):
        em.emit(flatten_contract('\n'.join(d.payload).rstrip('\n')), fn=qual, kind='contract')
    if body is None:
        em.emit(';', fn=qual, kind='sig')
        em.functions[qual]['last_line'] = len(em.lines)
        return

    # splices into body: collect (position, text) then apply back to front
    mbody = rsscan.mask(body)
    splices = []
    loops = loop_header_positions(mbody)
    for d in subs.get('loop', []):
        n = int(d.arg)
        if n > len(loops):
            raise LostAnchor(f'{qual}: loop {n} not found ({len(loops)} loops)')
        splices.append((loops[n - 1], '\n' + flatten_contract('\n'.join(d.payload).rstrip('\n')) + '\n'))
    for d in subs.get('hint', []):
        if d.arg.strip() == 'start':
            # at the very beginning of the body (after the R4 `let mut this = self;` line if present)
            mstart = re.match(r'\{\s*(let mut this = self;)?', body)
            splices.append((mstart.end(), '\n' + '\n'.join(d.payload).rstrip('\n') + '\n'))
            continue
        ml = re.match(r'loopbody\s+(\d+)\s*$', d.arg)
        if ml:
            # first thing in the body of the n-th loop (no statement anchor: survives edits of the body)
            n = int(ml.group(1))
            if n > len(loops):
                raise LostAnchor(f'{qual}: loop {n} not found ({len(loops)} loops)')
            splices.append((loops[n - 1] + 1, '\n' + '\n'.join(d.payload).rstrip('\n') + '\n'))
            continue
        m = re.match(r'(before|after)\s+(\d+)\s+(.*)$', d.arg, re.S)
        if not m:
            raise SystemExit(f'bad @@hint at line {d.lineno}')
        s, e, _ = find_nth(mbody, body, m.group(3), int(m.group(2)), qual, fuzzy=True)
        pos = s if m.group(1) == 'before' else e
        splices.append((pos, '\n' + '\n'.join(d.payload).rstrip('\n') + '\n'))
    for pos, t in sorted(splices, key=lambda x: -x[0]):
        body = body[:pos] + t + body[pos:]
    em.emit(body, fn=qual, kind='body')
    em.functions[qual]['last_line'] = len(em.lines)


def generate(unit_path):
    name = os.path.splitext(os.path.basename(unit_path))[0]
    ds = parse_unit(unit_path)
    em = Emitter(name)
    src = None
    block = None       # (kind, span_inner)
    i = 0

    def collect_subs(j):
        subs = {}
        while j < len(ds) and ds[j].name in ('contract', 'contractfile', 'loop', 'hint', 'sub', 'retname', 'attr', 'bytelits'):
            d = ds[j]
            if d.name == 'contractfile':
                # contract text shared between units (e.g. a function assumed in one unit and verified in another)
                d2 = Directive('contract', '', d.lineno)
                d2.payload = open(os.path.join(VERIF, 'verus', d.arg)).read().rstrip('\n').split('\n')
                d = d2
            subs.setdefault(d.name, []).append(d)
            j += 1
        return subs, j

    while i < len(ds):
        d = ds[i]
        i += 1
        if d.name == 'verbatim':
            em.emit('\n'.join(d.payload), kind='verbatim')
        elif d.name in ('include', 'use'):
            # @@use = include whose obligation labels belong to another unit (lemmas re-used here are
            # re-verified but not counted twice)
            p = os.path.join(VERIF, 'verus', d.arg)
            em.emit(f'// ---- {d.name} {d.arg}', kind='verbatim')
            txt = open(p).read().rstrip('\n')
            if d.name == 'use':
                txt = re.sub(r'//\s*@[C0-9,]+\s+\S+\s*$', '', txt, flags=re.M)
            em.emit(txt, kind='verbatim')
        elif d.name == 'source':
            src = Source.get(d.arg)
        elif d.name in ('impl', 'trait'):
            try:
                if d.name == 'impl':
                    s, e = rsscan.find_item(src.text, src.masked, 'impl', d.arg)
                else:
                    s, e = rsscan.find_item(src.text, src.masked, 'trait', d.arg)
            except rsscan.ScanError as ex:
                raise LostAnchor(str(ex))
            b = rsscan.find_body_open(src.masked, s)
            header = rsscan.strip_comments(src.text[s:b]).strip()
            header, counts = rewrites.apply_all(header, item_kind=('trait' if d.name == 'trait' else None), header_only=True)
            block = (d.name, (b + 1, e - 1), d.arg)
            if i < len(ds) and ds[i].name == 'header':
                # declared instantiation of a generic impl (R10): the emitted header replaces the source header
                header = ds[i].arg
                i += 1
                if i < len(ds) and ds[i].name == 'qual':
                    # a second instantiation of the same generic impl: its functions get their own qualified names
                    block = (block[0], block[1], ds[i].arg)
                    i += 1
            em.emit(header + ' {', kind='block')
            if d.payload and any(x.strip() for x in d.payload):
                em.emit('\n'.join(d.payload), kind='verbatim')
        elif d.name == 'end':
            em.emit('}', kind='block')
            block = None
        elif d.name == 'fn' or (d.name == 'item' and d.arg.split()[0] == 'fn'):
            fname = d.arg if d.name == 'fn' else d.arg.split()[1]
            subs, i = collect_subs(i)
            span = block[1] if block else None
            try:
                s, e = rsscan.find_item(src.text, src.masked, 'fn', fname, span)
            except rsscan.ScanError as ex:
                raise LostAnchor(f'{src.rel}: {ex}')
            qual = (block[2] + '::' if block else '') + fname
            qual = src.rel + '::' + qual
            rn = subs['retname'][0].arg if 'retname' in subs else 'r'
            build_fn(em, src, (s, e), qual, subs, rn)
        elif d.name == 'item':
            kind, iname = d.arg.split()[:2]
            subs, i = collect_subs(i)
            span = block[1] if block else None
            try:
                s, e = rsscan.find_item(src.text, src.masked, kind, iname, span)
            except rsscan.ScanError as ex:
                raise LostAnchor(f'{src.rel}: {ex}')
            text = rsscan.strip_comments(src.text[s:e])
            for sd in subs.get('sub', []):
                m = re.match(r'(\d+|all)\s+(.*?)\s+==>\s*(.*)$', sd.arg, re.S)
                k, old, new = m.group(1), m.group(2), m.group(3)
                s2, e2, _ = find_nth(None, text, old, 1 if k == 'all' else int(k), iname)
                text = text[:s2] + new + text[e2:]
                em.sub_counts.append({'fn': iname, 'old': old, 'count': 1})
            text, counts = rewrites.apply_all(text, item_kind=kind)
            for k, v in counts.items():
                em.rewrite_counts[k] = em.rewrite_counts.get(k, 0) + v
            text = '\n'.join(l for l in text.split('\n') if l.strip() != '')
            for a in subs.get('attr', []):
                em.emit(a.arg, kind='attr')
            em.emit(text, kind='item')
        else:
            raise SystemExit(f'{unit_path}:{d.lineno}: unknown directive @@{d.name}')

    out = '\n'.join(em.lines) + '\n'
    # mechanical scan for trusted constructs
    for n, ln in enumerate(em.lines, 1):
        st = ln.strip()
        if st.startswith('//'):
            continue
        if 'verifier::external_body' in st or 'verifier::external' in st:
            # name the function the attribute is attached to
            sig = next((em.lines[k].strip() for k in range(n, min(n + 4, len(em.lines))) if re.search(r'\bfn\s+\w+', em.lines[k])), st)
            em.trusted.append({'line': n, 'what': 'external_body (contract assumed, body not verified)', 'text': sig[:160]})
        elif 'assume_specification' in st:
            em.trusted.append({'line': n, 'what': 'assume_specification', 'text': st[:160]})
        elif re.search(r'\bassume\(', st) or 'admit(' in st:
            em.trusted.append({'line': n, 'what': 'assume/admit', 'text': st[:160]})
        elif 'exec_allows_no_decreases_clause' in st:
            em.trusted.append({'line': n, 'what': 'no decreases clause', 'text': st[:160]})
    return em, out


def main():
    if len(sys.argv) < 3:
        print('usage: extract.py <unit file> <out.rs> [<meta.json>]')
        return 2
    try:
        em, out = generate(sys.argv[1])
    except LostAnchor as ex:
        print(f'LOST-ANCHOR {ex}')
        return 2
    open(sys.argv[2], 'w').write(out)
    if len(sys.argv) > 3:
        json.dump({'unit': em.unit, 'functions': em.functions, 'rewrite_counts': em.rewrite_counts,
                   'sub_counts': em.sub_counts, 'trusted': em.trusted,
                   'origin': em.origin}, open(sys.argv[3], 'w'))
    return 0


if __name__ == '__main__':
    sys.exit(main())
