//! C17/C04: ProtocolVariables::{parse_name, write_response} (src/protocol/vars.rs) — bounded stand-ins.
//! Kani cannot run write_response on a symbolic subset / symbolic limit (probe: > 15 min); every case
//! below is concrete; cases that format a number cost 60-120 s of CBMC time and live in the thorough tier.
use crate::spec::*;
use fastcgi_server::protocol::{ProtocolVariables, Error as PErr};
use fastcgi_server::Config;
use std::num::NonZeroUsize;

const NAMES: [&[u8]; 3] = [b"FCGI_MAX_CONNS", b"FCGI_MAX_REQS", b"FCGI_MPXS_CONNS"];

/// decimal digits of v, most significant first, without the formatting machinery
fn decimal(mut v: usize, buf: &mut [u8; 20]) -> usize {
    let mut tmp = [0u8; 20];
    let mut n = 0;
    loop { tmp[n] = b'0' + (v % 10) as u8; v /= 10; n += 1; if v == 0 { break; } }
    let mut i = 0;
    while i < n { buf[i] = tmp[n - 1 - i]; i += 1; }
    n
}

/// the GetValuesResult the specification prescribes: names in declaration order, limits = max_conns, mpxs = "0"
fn expected(bits: u8, max_conns: usize, exp: &mut [u8; 104]) -> usize {
    let mut dec = [0u8; 20];
    let dl = decimal(max_conns, &mut dec);
    let mut p = 8;
    let mut k = 0;
    while k < 3 {
        if bits & (1 << k) != 0 {
            let name = NAMES[k];
            let vl = if k == 2 { 1 } else { dl };
            exp[p] = name.len() as u8; exp[p + 1] = vl as u8; p += 2;
            let mut i = 0;
            while i < name.len() { exp[p] = name[i]; p += 1; i += 1; }
            let mut i = 0;
            while i < vl { exp[p] = if k == 2 { b'0' } else { dec[i] }; p += 1; i += 1; }
        }
        k += 1;
    }
    let clen = p - 8;
    let plen = pad_for(clen as u16) as usize;
    let h = hdr_bytes(10, 0, clen as u16, plen as u8);
    let mut i = 0;
    while i < 8 { exp[i] = h[i]; i += 1; }
    p + plen
}

fn check_response(bits: u8, max_conns: usize, prefill: usize) {
    let vars = ProtocolVariables::from_bits_truncate(bits);
    let mut config = Config::with_conns(NonZeroUsize::new(max_conns).unwrap());
    config.buffer_size = 64;
    let mut out: Vec<u8> = Vec::new();
    let mut i = 0;
    while i < prefill { out.push(0x5A); i += 1; }
    let n = vars.write_response(&mut out, &config);
    let mut exp = [0u8; 104];
    let en = expected(bits, max_conns, &mut exp);
    // appended after the existing contents; count returned = bytes appended; no longer than advertised
    assert!(n == en && n <= ProtocolVariables::RESPONSE_LEN);
    assert!(out.len() == prefill + n);
    let mut i = 0;
    while i < prefill { assert!(out[i] == 0x5A); i += 1; }
    let mut i = 0;
    while i < n { assert!(out[prefill + i] == exp[i]); i += 1; }
}

// @C17,C04 kani.vars.write_response_cheap bounded(concrete: empty subset; MPXS only with a 3-byte prefilled buffer)
#[kani::proof]
#[kani::unwind(110)]
fn write_response_cheap() {
    check_response(0, 1, 0);
    check_response(4, 10, 3);
}

// @C17,C04 kani.vars.write_response_one_limit bounded(concrete: MAX_CONNS only, max_conns = 7) thorough
#[kani::proof]
#[kani::unwind(110)]
fn write_response_one_limit() {
    check_response(1, 7, 0);
}

// (not run: three number formattings exceed the memory cap / 25 min on this machine)
// @C99 kani.vars.write_response_all_one bounded(concrete: all three variables, max_conns = 1) thorough
#[kani::proof]
#[kani::unwind(110)]
fn write_response_all_one() {
    check_response(7, 1, 0);
}

// @C17,C04 kani.vars.write_response_digit_boundary bounded(concrete: MAX_REQS only, max_conns = 10, the first 2-digit value, 1-byte prefill) thorough
#[kani::proof]
#[kani::unwind(110)]
fn write_response_digit_boundary() {
    check_response(2, 10, 1);
}

// (not run: see write_response_all_one; the 20-digit case is covered for one variable by write_response_longest_limit)
// @C99 kani.vars.write_response_usize_max bounded(concrete: all three variables, max_conns = usize::MAX: the longest response, must fit RESPONSE_LEN) thorough
#[kani::proof]
#[kani::unwind(110)]
fn write_response_usize_max() {
    check_response(7, usize::MAX, 0);
}

// @C17,C04 kani.vars.write_response_longest_limit bounded(concrete: MAX_CONNS only, max_conns = usize::MAX, the longest value: 20 digits) thorough
#[kani::proof]
#[kani::unwind(110)]
fn write_response_longest_limit() {
    check_response(1, usize::MAX, 0);
}

// @C17,C04 kani.vars.parse_name bounded(concrete: the three known names and five unknown spellings) thorough
#[kani::proof]
#[kani::unwind(20)]
fn parse_name_examples() {
    let mut k = 0;
    while k < 3 {
        match ProtocolVariables::parse_name(NAMES[k]) { Ok(v) => assert!(v.bits() == 1 << k), Err(_) => assert!(false) }
        k += 1;
    }
    let unknown: [&[u8]; 5] = [b"", b"FCGI_MAX_CONN", b"fcgi_max_conns", b"FCGI_MAX_CONNS ", &[0xff, 0xfe]];
    let mut k = 0;
    while k < 5 {
        match ProtocolVariables::parse_name(unknown[k]) { Ok(_) => assert!(false), Err(e) => assert!(matches!(e, PErr::UnknownVariable)) }
        k += 1;
    }
}
