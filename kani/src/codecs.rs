//! C17 (and the protocol-layer contracts the Verus units assume): headers, fixed bodies, enum tables.
use crate::spec::*;
use fastcgi_server::protocol as fcgi;
use fastcgi_server::protocol::body::{BeginRequest, EndRequest, UnknownType};
use fastcgi_server::protocol::{Error as PErr, ProtocolStatus, RecordHeader, RecordType, RequestFlags, Role, Version};
use fastcgi_server::ExitStatus;

// This is the contract verus/prelude/protocol.rs states for RecordHeader::from_bytes (hdr_decode).
// @C17,C02,C03,C04,C01 proto.hdr_from_bytes.matches_spec complete
#[kani::proof]
fn hdr_from_bytes_matches_spec() {
    let d: [u8; 8] = kani::any();
    match RecordHeader::from_bytes(d) {
        Ok(h) => {
            assert!(d[0] == 1 && rtype_ok(d[1]));
            assert!(h.version == Version::V1);
            assert!(u8::from(h.rtype) == d[1]);
            assert!(h.request_id == be16(d[2], d[3]));
            assert!(h.content_length == be16(d[4], d[5]));
            assert!(h.padding_length == d[6]);
        },
        // version is checked first
        Err(PErr::UnknownVersion(v)) => { assert!(d[0] != 1 && v == d[0]); },
        Err(PErr::UnknownRecordType(t)) => { assert!(d[0] == 1 && !rtype_ok(d[1]) && t == d[1]); },
        Err(_) => assert!(false),
    }
    kani::cover!(d[0] == 1 && d[1] == 11);
    kani::cover!(d[0] != 1 && !rtype_ok(d[1]));
}

// @C17 proto.hdr.encode_decode_identity complete
#[kani::proof]
fn hdr_roundtrip_fields() {
    let t: u8 = kani::any();
    kani::assume(rtype_ok(t));
    let rtype = RecordType::try_from(t).unwrap();
    let h = RecordHeader { version: Version::V1, rtype, request_id: kani::any(), content_length: kani::any(), padding_length: kani::any() };
    let b = h.to_bytes();
    let e = hdr_bytes(t, h.request_id, h.content_length, h.padding_length);
    assert!(b == e);
    let back = RecordHeader::from_bytes(b).unwrap();
    assert!(back == h);
}

// @C17 proto.hdr.decode_encode_identity_mod_reserved complete
#[kani::proof]
fn hdr_bytes_roundtrip() {
    let d: [u8; 8] = kani::any();
    if let Ok(h) = RecordHeader::from_bytes(d) {
        let b = h.to_bytes();
        let mut i = 0;
        while i < 7 { assert!(b[i] == d[i]); i += 1; }
        assert!(b[7] == 0);
    }
}

// @C17,C10 proto.hdr.set_lengths complete
#[kani::proof]
fn hdr_set_lengths() {
    let clen: u16 = kani::any();
    let t: u8 = kani::any();
    kani::assume(rtype_ok(t));
    let id: u16 = kani::any();
    let mut h = RecordHeader::new(RecordType::try_from(t).unwrap(), id);
    assert!(h.version == Version::V1 && h.request_id == id && h.content_length == 0 && h.padding_length == 0);
    h.set_lengths(clen);
    assert!(h.content_length == clen);
    assert!(h.padding_length < 8);
    assert!((clen as u32 + h.padding_length as u32) % 8 == 0);
    assert!(h.padding_length == pad_for(clen));
    assert!(h.request_id == id && u8::from(h.rtype) == t);
}

// @C17,C10 proto.hdr.padding_bytes complete
#[kani::proof]
#[kani::unwind(257)]
fn hdr_padding_bytes() {
    let p: u8 = kani::any();
    let mut h = RecordHeader::new(RecordType::Stdout, 1);
    h.padding_length = p;
    let s = h.padding_bytes();
    assert!(s.len() == p as usize);
    let i: usize = kani::any();
    kani::assume(i < s.len());
    assert!(s[i] == 0);
}

// @C17,C04 proto.is_management complete
#[kani::proof]
fn is_management_table() {
    let t: u8 = kani::any();
    kani::assume(rtype_ok(t));
    let rt = RecordType::try_from(t).unwrap();
    assert!(rt.is_management() == (t == 9 || t == 10 || t == 11));
    assert!(rt.is_input_stream() == (t == 5 || t == 8));
    assert!(rt.is_output_stream() == (t == 6 || t == 7));
    let id: u16 = kani::any();
    let h = RecordHeader::new(rt, id);
    assert!(h.is_management() == ((t == 9 || t == 10 || t == 11) && id == 0));
}

// @C17 fields.enum_tables complete
#[kani::proof]
fn enum_tables() {
    let b: u8 = kani::any();
    match Version::try_from(b) { Ok(v) => assert!(b == 1 && u8::from(v) == 1), Err(PErr::UnknownVersion(x)) => assert!(b != 1 && x == b), Err(_) => assert!(false) }
    match RecordType::try_from(b) { Ok(v) => assert!(rtype_ok(b) && u8::from(v) == b), Err(PErr::UnknownRecordType(x)) => assert!(!rtype_ok(b) && x == b), Err(_) => assert!(false) }
    match ProtocolStatus::try_from(b) { Ok(v) => assert!(b <= 3 && u8::from(v) == b), Err(PErr::UnknownStatus(x)) => assert!(b > 3 && x == b), Err(_) => assert!(false) }
    let r: u16 = kani::any();
    match Role::try_from(r) { Ok(v) => assert!(1 <= r && r <= 3 && u16::from(v) == r), Err(PErr::UnknownRole(x)) => assert!(!(1 <= r && r <= 3) && x == r), Err(_) => assert!(false) }
}

// @C17 fields.request_flags complete
#[kani::proof]
fn request_flags() {
    let b: u8 = kani::any();
    let f = RequestFlags::from(b);
    assert!(u8::from(f) == b);            // unknown bits are retained
    assert!(f.contains(RequestFlags::KeepConn) == (b & 1 == 1));
    match f.validate() {
        Ok(()) => assert!(b & !1 == 0),
        Err(PErr::UnknownFlags(u)) => assert!(b & !1 != 0 && u == b & !1),
        Err(_) => assert!(false),
    }
}

// @C17,C01 body.begin_request complete
#[kani::proof]
fn begin_request_codec() {
    let d: [u8; 8] = kani::any();
    let role = be16(d[0], d[1]);
    match BeginRequest::from_bytes(d) {
        Ok(b) => {
            assert!(1 <= role && role <= 3);
            assert!(u16::from(b.role) == role);
            assert!(u8::from(b.flags) == d[2]);
            let e = b.to_bytes();
            assert!(e[0] == d[0] && e[1] == d[1] && e[2] == d[2]);
            assert!(e[3] == 0 && e[4] == 0 && e[5] == 0 && e[6] == 0 && e[7] == 0);
            let id: u16 = kani::any();
            let rec = b.to_record(id);
            let h = hdr_bytes(1, id, 8, 0);
            let mut i = 0;
            while i < 8 { assert!(rec[i] == h[i]); assert!(rec[8 + i] == e[i]); i += 1; }
            assert!(BeginRequest::from_bytes(e).unwrap() == b);
        },
        Err(PErr::UnknownRole(r)) => assert!(!(1 <= role && role <= 3) && r == role),
        Err(_) => assert!(false),
    }
}

// This is the contract verus/prelude/protocol.rs states for EndRequest::to_record.
// @C17,C04,C11,C01 body.end_request.matches_spec complete
#[kani::proof]
fn endrequest_to_record_matches_spec() {
    let app: u32 = kani::any();
    let st: u8 = kani::any();
    kani::assume(st <= 3);
    let id: u16 = kani::any();
    let e = EndRequest { app_status: app, protocol_status: ProtocolStatus::try_from(st).unwrap() };
    assert!(e.to_record(id) == end_request_bytes(id, app, st));
    let b = e.to_bytes();
    let a = be32_bytes(app);
    assert!(b == [a[0], a[1], a[2], a[3], st, 0, 0, 0]);
    assert!(EndRequest::from_bytes(b).unwrap() == e);
}

// @C17 body.end_request.decode complete
#[kani::proof]
fn endrequest_decode() {
    let d: [u8; 8] = kani::any();
    match EndRequest::from_bytes(d) {
        Ok(e) => {
            assert!(d[4] <= 3 && u8::from(e.protocol_status) == d[4]);
            assert!(be32_bytes(e.app_status) == [d[0], d[1], d[2], d[3]]);
            let b = e.to_bytes();
            assert!(b[0] == d[0] && b[1] == d[1] && b[2] == d[2] && b[3] == d[3] && b[4] == d[4]);
            assert!(b[5] == 0 && b[6] == 0 && b[7] == 0);
        },
        Err(PErr::UnknownStatus(s)) => assert!(d[4] > 3 && s == d[4]),
        Err(_) => assert!(false),
    }
}

// This is the contract verus/prelude/protocol.rs states for UnknownType::to_record.
// @C17,C04 body.unknown_type.matches_spec complete
#[kani::proof]
fn unknown_to_record_matches_spec() {
    let t: u8 = kani::any();
    let id: u16 = kani::any();
    let u = UnknownType { rtype: t };
    assert!(u.to_record(id) == unknown_reply(id, t));
    assert!(u.to_bytes() == [t, 0, 0, 0, 0, 0, 0, 0]);
    let d: [u8; 8] = kani::any();
    assert!(UnknownType::from_bytes(d).rtype == d[0]);
    assert!(UnknownType::from_bytes(u.to_bytes()) == u);
}

// @C17,C11,C07 exit_status.mapping complete
#[kani::proof]
fn exit_status_mapping() {
    let c: u32 = kani::any();
    let e = EndRequest::from(ExitStatus::Complete(c));
    assert!(e.protocol_status == ProtocolStatus::RequestComplete && e.app_status == c);
    let e = EndRequest::from(ExitStatus::Overloaded);
    assert!(e.protocol_status == ProtocolStatus::Overloaded && e.app_status == 0);
    let e = EndRequest::from(ExitStatus::UnknownRole);
    assert!(e.protocol_status == ProtocolStatus::UnknownRole && e.app_status == 0);
    assert!(ExitStatus::SUCCESS == ExitStatus::Complete(0));
    assert!(ExitStatus::ABORT == ExitStatus::Complete(0x41425254));
    assert!(ExitStatus::default() == ExitStatus::SUCCESS);
    assert!(ExitStatus::from(c) == ExitStatus::Complete(c));
}
