//! C15: the variable-length integer codec (src/protocol/varint.rs)
use crate::spec::*;
use fastcgi_server::protocol::varint::VarInt;
use fastcgi_server::protocol::Error as PErr;
use std::io::ErrorKind;

// @C15,C16 varint.try_from_u32.range complete
#[kani::proof]
fn varint_try_from_u32_range() {
    let v: u32 = kani::any();
    match VarInt::try_from(v) {
        Ok(x) => { assert!(v <= 0x7fff_ffff); assert!(u32::from(x) == v); },
        Err(e) => { assert!(v > 0x7fff_ffff); assert!(matches!(e, PErr::InvalidVarInt)); },
    }
    kani::cover!(v == 0x7fff_ffff);
    kani::cover!(v == 0x8000_0000);
}

// @C15,C16 varint.try_from_usize.range complete
#[kani::proof]
fn varint_try_from_usize_range() {
    let v: usize = kani::any();
    match VarInt::try_from(v) {
        Ok(x) => { assert!(v <= 0x7fff_ffff); assert!(u32::from(x) as usize == v); assert!(usize::try_from(x).unwrap() == v); },
        Err(e) => { assert!(v > 0x7fff_ffff); assert!(matches!(e, PErr::InvalidVarInt)); },
    }
    kani::cover!(v == 0x7fff_ffff);
    kani::cover!(v == 0x8000_0000);
    kani::cover!(v == usize::MAX);
}

// @C15 varint.from_small.identity complete
#[kani::proof]
fn varint_from_u8_u16() {
    let a: u8 = kani::any();
    let b: u16 = kani::any();
    assert!(u32::from(VarInt::from(a)) == a as u32);
    assert!(u32::from(VarInt::from(b)) == b as u32);
    assert!(u32::from(VarInt::MAX) == 0x7fff_ffff);
}

// @C15,C16 varint.write.matches_enc complete
#[kani::proof]
#[kani::unwind(6)]
fn varint_write_matches_enc() {
    let v: u32 = kani::any();
    kani::assume(v <= 0x7fff_ffff);
    let x = VarInt::try_from(v).unwrap();
    let cap: usize = kani::any();
    kani::assume(cap <= 5);
    let mut buf = [0xAAu8; 5];
    let (e, n) = enc(v);
    let res = x.write(&mut buf[..cap]);
    if cap >= n {
        // enough room: exactly the bytes of enc(v), count returned, nothing else touched
        assert!(res.is_ok());
        assert!(res.unwrap() == n);
        let mut i = 0;
        while i < 5 {
            if i < n { assert!(buf[i] == e[i]); } else { assert!(buf[i] == 0xAA); }
            i += 1;
        }
        // one byte below 128, four bytes with the high bit set otherwise
        assert!((v < 128) == (n == 1));
        assert!(v < 128 || (n == 4 && buf[0] & 0x80 != 0));
    } else {
        assert!(res.is_err());
    }
    kani::cover!(cap >= n && n == 4);
    kani::cover!(cap < n);
}

// @C15,C16 varint.read.matches_dec complete
#[kani::proof]
#[kani::unwind(6)]
fn varint_read_matches_dec() {
    let b: [u8; 5] = kani::any();
    let n: usize = kani::any();
    kani::assume(n <= 5);
    let mut cur: &[u8] = &b[..n];
    let res = VarInt::read(&mut cur);
    if dec_ok(&b[..n]) {
        // succeeds exactly when the announced 1 or 4 bytes are present; consumes exactly those
        let x = res.unwrap();
        assert!(u32::from(x) == dec_val(&b[..n]));
        assert!(u32::from(x) <= 0x7fff_ffff);
        assert!(cur.len() == n - dec_len(&b[..n]));
    } else {
        match res {
            Ok(_) => assert!(false),
            Err(e) => assert!(e.kind() == ErrorKind::UnexpectedEof),
        }
    }
    kani::cover!(dec_ok(&b[..n]) && dec_len(&b[..n]) == 4);
    kani::cover!(!dec_ok(&b[..n]) && n == 3);
}

// @C15 varint.roundtrip complete
#[kani::proof]
#[kani::unwind(6)]
fn varint_roundtrip() {
    let v: u32 = kani::any();
    kani::assume(v <= 0x7fff_ffff);
    let mut buf = [0u8; 6];
    let n = VarInt::try_from(v).unwrap().write(&mut buf[..]).unwrap();
    let extra: usize = kani::any();
    kani::assume(extra <= 2);
    let mut cur: &[u8] = &buf[..n + extra];
    let back = VarInt::read(&mut cur).unwrap();
    assert!(u32::from(back) == v);
    assert!(cur.len() == extra);
    kani::cover!(n == 4 && extra == 2);
}
