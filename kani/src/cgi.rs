//! C19 (variable names) and C20 (CGI response writers): *bounded* stand-ins on the real code.
//! Strings are built with from_utf8_unchecked over bytes constrained to ASCII (std::str::from_utf8 on
//! symbolic bytes is a CBMC cost cliff); the harness, not the crate, contains the `unsafe`.
use fastcgi_server::cgi::{self, OwnedVarName, StaticVarName, VarName};
use std::cmp::Ordering;
use std::hash::{Hash, Hasher};

fn up(b: u8) -> u8 { if b >= b'a' && b <= b'z' { b - 32 } else { b } }

fn ascii<const N: usize>(buf: &[u8; N], n: usize) -> &str {
    let mut i = 0;
    while i < N { kani::assume(buf[i] < 0x80); i += 1; }
    unsafe { std::str::from_utf8_unchecked(&buf[..n]) }
}

/// records every write
struct Rec { buf: [u8; 64], n: usize, writes: usize }
impl Hasher for Rec {
    fn finish(&self) -> u64 { 0 }
    fn write(&mut self, bytes: &[u8]) {
        let mut i = 0;
        while i < bytes.len() { if self.n < 64 { self.buf[self.n] = bytes[i]; } self.n += 1; i += 1; }
        self.writes += 1;
    }
}

// @C19 kani.cgi.varname_eq_ignores_ascii_case bounded(two ASCII names <= 6 bytes)
#[kani::proof]
#[kani::unwind(8)]
fn varname_eq_spec() {
    let a: [u8; 6] = kani::any();
    let b: [u8; 6] = kani::any();
    let la: usize = kani::any();
    let lb: usize = kani::any();
    kani::assume(la <= 6 && lb <= 6);
    let (sa, sb) = (ascii(&a, la), ascii(&b, lb));
    let mut same = la == lb;
    let mut i = 0;
    while i < 6 { if i < la && i < lb && up(a[i]) != up(b[i]) { same = false; } i += 1; }
    assert!((VarName::new(sa) == VarName::new(sb)) == same);
    kani::cover!(same && la == 6 && a[0] != b[0]);
}

// @C19 kani.cgi.varname_cmp_is_lexicographic_on_uppercase bounded(two ASCII names <= 5 bytes)
#[kani::proof]
#[kani::unwind(8)]
fn varname_cmp_spec() {
    let a: [u8; 5] = kani::any();
    let b: [u8; 5] = kani::any();
    let la: usize = kani::any();
    let lb: usize = kani::any();
    kani::assume(la <= 5 && lb <= 5);
    let (sa, sb) = (ascii(&a, la), ascii(&b, lb));
    let mut exp = Ordering::Equal;
    let mut i = 0;
    while i < 5 {
        if exp == Ordering::Equal {
            if i < la && i < lb { exp = up(a[i]).cmp(&up(b[i])); }
            else if i < la { exp = Ordering::Greater; }
            else if i < lb { exp = Ordering::Less; }
        }
        i += 1;
    }
    let got = VarName::new(sa).cmp(VarName::new(sb));
    assert!(got == exp);
    // consistent with equality
    assert!((got == Ordering::Equal) == (VarName::new(sa) == VarName::new(sb)));
}

// @C19 kani.cgi.varname_hash_agrees_with_eq bounded(two ASCII names <= 18 bytes that differ only in letter case; crosses the 16-byte chunk) thorough
#[kani::proof]
#[kani::unwind(20)]
fn varname_hash_case_insensitive() {
    let a: [u8; 18] = kani::any();
    let n: usize = kani::any();
    kani::assume(n <= 18);
    let mut b = a;
    let flip: usize = kani::any();
    kani::assume(flip < 18);
    if b[flip] >= b'a' && b[flip] <= b'z' { b[flip] -= 32; } else if b[flip] >= b'A' && b[flip] <= b'Z' { b[flip] += 32; }
    let (sa, sb) = (ascii(&a, n), ascii(&b, n));
    let mut ha = Rec { buf: [0; 64], n: 0, writes: 0 };
    let mut hb = Rec { buf: [0; 64], n: 0, writes: 0 };
    VarName::new(sa).hash(&mut ha);
    VarName::new(sb).hash(&mut hb);
    assert!(VarName::new(sa) == VarName::new(sb));
    assert!(ha.n == hb.n && ha.writes == hb.writes);
    let i: usize = kani::any();
    kani::assume(i < 64 && i < ha.n);
    assert!(ha.buf[i] == hb.buf[i]);
    // the hashed bytes are the uppercased name, chunked, with a 0xff terminator in the last write
    assert!(ha.n == n + 1);
    kani::cover!(n == 17 && flip == 16);
}

// @C19 kani.cgi.varname_hash_full_chunk bounded(two 17-byte ASCII names, i.e. one full 16-byte hashing chunk plus one byte, that differ in the case of one letter)
#[kani::proof]
#[kani::unwind(20)]
fn varname_hash_full_chunk() {
    let a: [u8; 17] = kani::any();
    let mut b = a;
    let flip: usize = kani::any();
    kani::assume(flip < 17);
    if b[flip] >= b'a' && b[flip] <= b'z' { b[flip] -= 32; } else if b[flip] >= b'A' && b[flip] <= b'Z' { b[flip] += 32; }
    let (sa, sb) = (ascii(&a, 17), ascii(&b, 17));
    let mut ha = Rec { buf: [0; 64], n: 0, writes: 0 };
    let mut hb = Rec { buf: [0; 64], n: 0, writes: 0 };
    VarName::new(sa).hash(&mut ha);
    VarName::new(sb).hash(&mut hb);
    assert!(ha.n == 18 && hb.n == 18 && ha.writes == hb.writes);
    let mut i = 0;
    while i < 18 { assert!(ha.buf[i] == hb.buf[i]); i += 1; }
    // the hashed bytes are the uppercased name followed by the 0xff terminator
    let k: usize = kani::any();
    kani::assume(k < 17);
    assert!(ha.buf[k] == up(a[k]) && ha.buf[17] == 0xff);
    kani::cover!(flip == 3 && a[3] == b'q');
}

// @C19 kani.cgi.static_names_roundtrip bounded(four interned names: canonical spelling, equality and order against their string form) thorough
#[kani::proof]
#[kani::unwind(20)]
fn static_names_view() {
    let k: u8 = kani::any();
    kani::assume(k < 4);
    let (sv, text): (StaticVarName, &str) = match k {
        0 => (cgi::CONTENT_LENGTH, "CONTENT_LENGTH"),
        1 => (cgi::GATEWAY_INTERFACE, "GATEWAY_INTERFACE"),
        2 => (cgi::QUERY_STRING, "QUERY_STRING"),
        _ => (cgi::REQUEST_METHOD, "REQUEST_METHOD"),
    };
    let owned = OwnedVarName::from(sv);
    let s: &str = owned.as_ref();
    assert!(s.len() == text.len());
    let v: &VarName = sv.into();
    assert!(v == VarName::new(text));
    assert!(owned == OwnedVarName::from(sv));
}

// (not run: with CompactString's no-op inline asm `ensure_read` stubbed by the identity it verifies, but takes 19 min;
// the 2-byte and 3-byte variants below are the ones that run)
// @C99 kani.cgi.normalising_constructors_uppercase bounded(ASCII names <= 3 bytes through From<String>, From<Box<str>>, From<Cow::Owned>, from_mut_str) thorough
fn ensure_read_identity(value: usize) -> usize { value }

#[kani::proof]
#[kani::stub(compact_str::repr::ensure_read, ensure_read_identity)]
#[kani::unwind(8)]
fn normalising_constructors() {
    let a: [u8; 3] = kani::any();
    let n: usize = kani::any();
    kani::assume(n <= 3);
    let s = ascii(&a, n);
    let which: u8 = kani::any();
    kani::assume(which < 4);
    let owned = match which {
        0 => OwnedVarName::from(String::from(s)),
        1 => OwnedVarName::from(Box::<str>::from(s)),
        2 => OwnedVarName::from(std::borrow::Cow::<str>::Owned(String::from(s))),
        _ => { let mut t = String::from(s); OwnedVarName::from_mut_str(t.as_mut_str()) },
    };
    let r: &str = owned.as_ref();
    let rb = r.as_bytes();
    assert!(rb.len() == n);
    let mut i = 0;
    while i < 3 { if i < n { assert!(rb[i] == up(a[i])); } i += 1; }
    kani::cover!(n == 3 && a[0] == b'q' && which == 1);
}

// @C19 kani.cgi.normalising_constructors_small bounded(2-byte ASCII names through From<String> and From<Box<str>>; CompactString's no-op inline asm stubbed by the identity)
#[kani::proof]
#[kani::stub(compact_str::repr::ensure_read, ensure_read_identity)]
#[kani::unwind(6)]
fn normalising_constructors_small() {
    let a: [u8; 2] = kani::any();
    let s = ascii(&a, 2);
    let boxed: bool = kani::any();
    let owned = if boxed { OwnedVarName::from(Box::<str>::from(s)) } else { OwnedVarName::from(String::from(s)) };
    let r: &str = owned.as_ref();
    let rb = r.as_bytes();
    assert!(rb.len() == 2 && rb[0] == up(a[0]) && rb[1] == up(a[1]));
    kani::cover!(a[0] == b'q' && boxed);
}

// @C19 kani.cgi.normalising_constructors_all bounded(3-byte ASCII names through From<String>, From<Box<str>>, From<Cow::Owned> and from_mut_str; same stub)
#[kani::proof]
#[kani::stub(compact_str::repr::ensure_read, ensure_read_identity)]
#[kani::unwind(6)]
fn normalising_constructors_all() {
    let a: [u8; 3] = kani::any();
    let s = ascii(&a, 3);
    let which: u8 = kani::any();
    kani::assume(which < 4);
    let owned = match which {
        0 => OwnedVarName::from(String::from(s)),
        1 => OwnedVarName::from(Box::<str>::from(s)),
        2 => OwnedVarName::from(std::borrow::Cow::<str>::Owned(String::from(s))),
        _ => { let mut t = String::from(s); OwnedVarName::from_mut_str(t.as_mut_str()) },
    };
    let r: &str = owned.as_ref();
    let rb = r.as_bytes();
    assert!(rb.len() == 3 && rb[0] == up(a[0]) && rb[1] == up(a[1]) && rb[2] == up(a[2]));
}
