//! The finite std facts the Verus preludes assume (R6 wrappers), proved over their full domain.
use crate::spec::*;

// @C01,C02,C03,C04 std.u16_from_be_bytes complete
#[kani::proof]
fn std_be16() {
    let a: u8 = kani::any();
    let b: u8 = kani::any();
    assert!(u16::from_be_bytes([a, b]) as u32 == a as u32 * 256 + b as u32);
    assert!(be16(a, b) == u16::from_be_bytes([a, b]));
}

// @C01,C02,C03 std.min_max complete
#[kani::proof]
fn std_min_max() {
    let a: usize = kani::any();
    let b: usize = kani::any();
    assert!(std::cmp::min(a, b) == if a <= b { a } else { b });
    assert!(std::cmp::max(a, b) == if a >= b { a } else { b });
}

// @C02 std.slice_write bounded(dest<=6,src<=6)
#[kani::proof]
#[kani::unwind(8)]
fn std_slice_write() {
    use std::io::Write;
    let mut backing: [u8; 6] = kani::any();
    let orig = backing;
    let src: [u8; 6] = kani::any();
    let dl: usize = kani::any();
    let sl: usize = kani::any();
    kani::assume(dl <= 6 && sl <= 6);
    let r;
    let rest_len;
    {
        let mut buf: &mut [u8] = &mut backing[..dl];
        r = buf.write(&src[..sl]).expect("writing into &mut [u8] should always succeed");
        rest_len = buf.len();
    }
    let m = if dl <= sl { dl } else { sl };
    assert!(r == m);
    assert!(rest_len == dl - m);
    let mut i = 0;
    while i < 6 {
        if i < m { assert!(backing[i] == src[i]); } else { assert!(backing[i] == orig[i]); }
        i += 1;
    }
}

// @C02,C05 std.copy_within bounded(len<=6)
#[kani::proof]
#[kani::unwind(8)]
fn std_copy_within() {
    let mut v: [u8; 6] = kani::any();
    let o = v;
    let lo: usize = kani::any();
    let hi: usize = kani::any();
    let d: usize = kani::any();
    kani::assume(lo <= hi && hi <= 6 && d <= 6 && d + (hi - lo) <= 6);
    v.copy_within(lo..hi, d);
    let mut i = 0;
    while i < 6 {
        if d <= i && i < d + (hi - lo) { assert!(v[i] == o[i - d + lo]); } else { assert!(v[i] == o[i]); }
        i += 1;
    }
}
