//! C16: name-value codec (src/protocol/nv.rs) on the real generic code.  These are *bounded* stand-ins
//! (the unbounded decoder law is the Verus contract on NVIter::next in unit nv).
use crate::spec::*;
use fastcgi_server::protocol::nv::{self, NVIter};

/// Rust mirror of spec pair_step: Some((head_len, name_len, val_len)) iff a complete pair starts at s[0].
fn pair_step(s: &[u8]) -> Option<(usize, usize, usize)> {
    if !dec_ok(s) { return None; }
    let l1 = dec_len(s);
    let t = &s[l1..];
    if !dec_ok(t) { return None; }
    let hl = l1 + dec_len(t);
    let nl = dec_val(s) as usize;
    let vl = dec_val(t) as usize;
    if hl + nl + vl <= s.len() { Some((hl, nl, vl)) } else { None }
}

// @C16 kani.nv.next_matches_pair_step_shared_and_mut bounded(input<=9 bytes, all byte values)
#[kani::proof]
#[kani::unwind(12)]
fn nv_next_shared_mut_agree() {
    let buf: [u8; 9] = kani::any();
    let n: usize = kani::any();
    kani::assume(n <= 9);
    let mut copy = buf;
    let spec = pair_step(&buf[..n]);
    let mut it = NVIter::new(&buf[..n]);
    let got = it.next();
    let rest_len = it.into_inner().len();
    let mut itm = NVIter::new(&mut copy[..n]);
    let gotm = itm.next();
    match (spec, got, gotm) {
        (Some((hl, nl, vl)), Some((name, val)), Some((namem, valm))) => {
            // zero-copy: consecutive sub-slices of the input
            assert!(name.len() == nl && val.len() == vl);
            assert!(name.as_ptr() == buf[hl..].as_ptr());
            assert!(val.as_ptr() == buf[hl + nl..].as_ptr());
            assert!(rest_len == n - (hl + nl + vl));
            // shared and mutable variants agree
            assert!(namem.len() == nl && valm.len() == vl);
            let i: usize = kani::any();
            kani::assume(i < nl);
            assert!(namem[i] == name[i]);
        },
        (None, None, None) => { assert!(rest_len == n); },
        _ => assert!(false),
    }
    kani::cover!(spec.is_some() && n == 9);
    kani::cover!(spec.is_none() && n >= 5);
}

// @C16 kani.nv.size_hint bounded(input<=5 bytes) thorough
#[kani::proof]
#[kani::unwind(8)]
fn nv_size_hint_bounds_count() {
    let buf: [u8; 5] = kani::any();
    let n: usize = kani::any();
    kani::assume(n <= 5);
    let it = NVIter::new(&buf[..n]);
    let (lo, hi) = it.size_hint();
    assert!(lo == 0 && hi == Some(n / 2));
    let mut it = it;
    let mut count = 0usize;
    while let Some(_) = it.next() { count += 1; }
    assert!(count <= n / 2);
    // fused: after None it stays None
    assert!(it.next().is_none());
}

// @C16 kani.nv.write_matches_enc_pair bounded(name<=3 bytes, value<=3 bytes, all byte values)
#[kani::proof]
#[kani::unwind(12)]
fn nv_write_matches_enc_pair() {
    let name: [u8; 3] = kani::any();
    let value: [u8; 3] = kani::any();
    let nl: usize = kani::any();
    let vl: usize = kani::any();
    kani::assume(nl <= 3 && vl <= 3);
    let mut out = [0xAAu8; 10];
    // (no unwrap: the Debug formatting of io::Error on the panic path is what makes CBMC explode)
    let written = match nv::write((&name[..nl], &value[..vl]), &mut out[..]) { Ok(w) => w, Err(_) => { assert!(false); return; } };
    // the encoder reports exactly the bytes it wrote: enc(|n|) enc(|v|) n v
    assert!(written == 2 + nl + vl);
    assert!(out[0] == nl as u8 && out[1] == vl as u8);
    let mut i = 0;
    while i < 8 {
        if i < nl { assert!(out[2 + i] == name[i]); }
        else if i < nl + vl { assert!(out[2 + i] == value[i - nl]); }
        else { assert!(out[2 + i] == 0xAA); }
        i += 1;
    }
    // and decoding it yields the pair back with nothing left over
    let mut it = NVIter::new(&out[..written]);
    match it.next() {
        Some((n2, v2)) => { assert!(n2.len() == nl && v2.len() == vl); },
        None => assert!(false),
    }
    assert!(it.into_inner().is_empty());
}

// @C16 kani.nv.write_long_form_boundary bounded(name length 127 or 128 (the 1-byte/4-byte boundary), value 1 byte) thorough
#[kani::proof]
#[kani::unwind(132)]
fn nv_write_long_form_boundary() {
    let name: [u8; 128] = kani::any();
    let long: bool = kani::any();
    let nl: usize = if long { 128 } else { 127 };
    let v: u8 = kani::any();
    let mut out = [0xAAu8; 136];
    let written = match nv::write((&name[..nl], &[v]), &mut out[..]) { Ok(w) => w, Err(_) => { assert!(false); return; } };
    if long {
        assert!(written == 4 + 1 + 128 + 1);
        assert!(out[0] == 0x80 && out[1] == 0 && out[2] == 0 && out[3] == 128 && out[4] == 1);
        assert!(out[5] == name[0] && out[5 + 127] == name[127] && out[5 + 128] == v);
    } else {
        assert!(written == 1 + 1 + 127 + 1);
        assert!(out[0] == 127 && out[1] == 1);
        assert!(out[2] == name[0] && out[2 + 126] == name[126] && out[2 + 127] == v);
    }
    let mut it = NVIter::new(&out[..written]);
    match it.next() {
        Some((n2, v2)) => { assert!(n2.len() == nl && v2.len() == 1 && v2[0] == v); },
        None => assert!(false),
    }
    assert!(it.into_inner().is_empty());
}

// @C16 kani.nv.write_insufficient_space_fails bounded(name<=3, value<=3, capacity<=10)
#[kani::proof]
#[kani::unwind(12)]
fn nv_write_short_buffer_fails() {
    let name: [u8; 3] = kani::any();
    let value: [u8; 3] = kani::any();
    let nl: usize = kani::any();
    let vl: usize = kani::any();
    let cap: usize = kani::any();
    kani::assume(nl <= 3 && vl <= 3 && cap <= 10);
    let mut out = [0u8; 10];
    let res = nv::write((&name[..nl], &value[..vl]), &mut out[..cap]);
    assert!(res.is_ok() == (cap >= 2 + nl + vl));
}
