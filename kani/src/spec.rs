//! Rust mirror of verus/spec/{varint,records}.rs (kept in sync by hand; see DESIGN 5).

pub fn dec_len(s: &[u8]) -> usize { if s.is_empty() { 0 } else if s[0] < 128 { 1 } else { 4 } }
pub fn dec_ok(s: &[u8]) -> bool { !s.is_empty() && s.len() >= dec_len(s) }
pub fn dec_val(s: &[u8]) -> u32 {
    if s[0] < 128 { s[0] as u32 }
    else { ((s[0] as u32 - 128) * 16777216) + s[1] as u32 * 65536 + s[2] as u32 * 256 + s[3] as u32 }
}
/// enc(v) for v <= 2^31-1: (bytes, len)
pub fn enc(v: u32) -> ([u8; 4], usize) {
    if v < 128 { ([v as u8, 0, 0, 0], 1) }
    else { ([(128 + v / 16777216) as u8, (v / 65536 % 256) as u8, (v / 256 % 256) as u8, (v % 256) as u8], 4) }
}

pub fn rtype_ok(b: u8) -> bool { 1 <= b && b <= 11 }
pub fn be16(a: u8, b: u8) -> u16 { (a as u16) * 256 + b as u16 }
pub fn hi8(v: u16) -> u8 { (v / 256) as u8 }
pub fn lo8(v: u16) -> u8 { (v % 256) as u8 }
pub fn hdr_bytes(t: u8, id: u16, clen: u16, plen: u8) -> [u8; 8] {
    [1, t, hi8(id), lo8(id), hi8(clen), lo8(clen), plen, 0]
}
pub fn be32_bytes(v: u32) -> [u8; 4] {
    [(v / 16777216) as u8, (v / 65536 % 256) as u8, (v / 256 % 256) as u8, (v % 256) as u8]
}
pub fn unknown_reply(id: u16, ty: u8) -> [u8; 16] {
    let h = hdr_bytes(11, id, 8, 0);
    [h[0], h[1], h[2], h[3], h[4], h[5], h[6], h[7], ty, 0, 0, 0, 0, 0, 0, 0]
}
pub fn end_request_bytes(id: u16, app: u32, st: u8) -> [u8; 16] {
    let h = hdr_bytes(3, id, 8, 0);
    let a = be32_bytes(app);
    [h[0], h[1], h[2], h[3], h[4], h[5], h[6], h[7], a[0], a[1], a[2], a[3], st, 0, 0, 0]
}
pub fn pad_for(clen: u16) -> u8 { ((8 - (clen % 8)) % 8) as u8 }
