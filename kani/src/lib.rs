//! Contract harnesses on the real crate (public API only).  Every `#[kani::proof]` is preceded by a
//! line `// @<props> <obligation id> complete|bounded(<bound>)` that the check driver reads.
//! `complete` = loop-free (or loops bounded by a constant of the input type, unwinding assertions on)
//! over the full symbolic domain: a proof for all inputs.  `bounded` is never counted as proved.
#![allow(clippy::all)]
#![allow(unused)]

pub mod spec;
#[cfg(kani)]
mod varint;
#[cfg(kani)]
mod codecs;
#[cfg(kani)]
mod tables;
#[cfg(kani)]
mod stdwrap;
#[cfg(kani)]
mod nv;
#[cfg(kani)]
mod vars;
#[cfg(kani)]
mod cgi;
#[cfg(kani)]
mod response;
