//! C18 role/stream tables, C11/C03 error mapping.
use fastcgi_server::parser::Error as ParseError;
use fastcgi_server::protocol as fcgi;
use fastcgi_server::protocol::{RecordType, Role};
use std::io;

fn role_of(r: u8) -> Role { match r { 1 => Role::Responder, 2 => Role::Authorizer, _ => Role::Filter } }

// @C18,C09 fields.role_streams complete
#[kani::proof]
#[kani::unwind(4)]
fn role_stream_tables() {
    let r: u8 = kani::any();
    kani::assume(1 <= r && r <= 3);
    let role = role_of(r);
    let s = role.input_streams();
    match r {
        1 => assert!(s == &[RecordType::Stdin]),
        2 => assert!(s.is_empty()),
        _ => assert!(s == &[RecordType::Stdin, RecordType::Data]),
    }
    assert!(role.output_streams() == &[RecordType::Stdout, RecordType::Stderr]);
    // next_input_stream walks input_streams() in order and ends with None
    let first = role.next_input_stream(None);
    assert!(first == s.first().copied());
    if let Some(f) = first {
        let second = role.next_input_stream(Some(f));
        assert!(second == s.get(1).copied());
        if let Some(g) = second {
            assert!(role.next_input_stream(Some(g)).is_none());
        }
    }
}

// @C11,C03 parser.error_to_io complete
#[kani::proof]
fn parser_error_to_io_kind() {
    let k: u8 = kani::any();
    kani::assume(k < 8);
    let v: u8 = kani::any();
    let w: u16 = kani::any();
    let e = match k {
        0 => ParseError::AbortRequest,
        1 => ParseError::UnknownVersion(v),
        2 => ParseError::InvalidRequestLen(w),
        3 => ParseError::NullRequest,
        4 => ParseError::Protocol(fcgi::Error::UnknownRole(w)),
        5 => ParseError::StuckOnInput,
        6 => ParseError::Interrupted,
        _ => ParseError::Paniced,
    };
    let kind = io::Error::from(e).kind();
    match k {
        0 => assert!(kind == io::ErrorKind::ConnectionAborted),
        1 | 2 | 3 | 4 => assert!(kind == io::ErrorKind::InvalidData),
        _ => assert!(kind == io::ErrorKind::Other),
    }
}
