//! C20: CGI response header writers (src/cgi/response.rs) — bounded stand-ins on the real generic code.
use fastcgi_server::cgi::response::{simple_redirect, write_headers};

fn ascii_no_nl<const N: usize>(buf: &[u8; N], n: usize) -> &[u8] {
    let mut i = 0;
    while i < N { kani::assume(buf[i] < 0x80 && buf[i] != b'\n' && buf[i] != b'\r'); i += 1; }
    &buf[..n]
}

// (extra, not claimed: C20 is not decided by this harness alone)
// @C99 kani.response.simple_redirect bounded(location <= 4 ASCII bytes, all capacities 0..=20)
#[kani::proof]
#[kani::unwind(24)]
fn simple_redirect_grammar() {
    let l: [u8; 4] = kani::any();
    let n: usize = kani::any();
    kani::assume(n <= 4);
    let loc = unsafe { std::str::from_utf8_unchecked(ascii_no_nl(&l, n)) };
    let cap: usize = kani::any();
    kani::assume(cap <= 20);
    let mut out = [0xAAu8; 20];
    let res = simple_redirect(&mut out[..cap], loc);
    let need = 10 + n + 2;
    match res {
        Ok(w) => {
            assert!(cap >= need && w == need);
            let exp = b"Location: ";
            let mut i = 0;
            while i < 10 { assert!(out[i] == exp[i]); i += 1; }
            let mut i = 0;
            while i < 4 { if i < n { assert!(out[10 + i] == l[i]); } i += 1; }
            assert!(out[10 + n] == b'\n' && out[11 + n] == b'\n');
        },
        Err(_) => assert!(cap < need),
    }
    kani::cover!(cap == need);
    kani::cover!(cap + 1 == need);
}

// (not run: CBMC does not finish write_headers within 400 s even for this bound; kept for reference)
// @C99 kani.response.write_headers_lines bounded(status 200, <= 2 headers with names and values <= 2 bytes, all capacities 0..=32) thorough
#[kani::proof]
#[kani::unwind(36)]
fn write_headers_grammar() {
    let line: &[u8] = b"Status: 200 OK";
    let status = http::StatusCode::OK;
    let n1: [u8; 2] = kani::any(); let v1: [u8; 2] = kani::any();
    let n2: [u8; 2] = kani::any(); let v2: [u8; 1] = kani::any();
    let count: usize = kani::any();
    kani::assume(count <= 2);
    let ln1: usize = kani::any(); let lv1: usize = kani::any();
    kani::assume(ln1 <= 2 && lv1 <= 2);
    let hs = [(ascii_no_nl(&n1, ln1), ascii_no_nl(&v1, lv1)), (ascii_no_nl(&n2, 2), ascii_no_nl(&v2, 1))];
    let cap: usize = kani::any();
    kani::assume(cap <= 32);
    let mut out = [0xAAu8; 32];
    let res = write_headers(&mut out[..cap], status, hs[..count].iter().copied());
    let mut need = line.len() + 2;
    if count >= 1 { need += 1 + ln1 + 2 + lv1; }
    if count >= 2 { need += 1 + 2 + 2 + 1; }
    match res {
        Ok(w) => {
            assert!(cap >= need && w == need);
            let mut i = 0;
            while i < line.len() { assert!(out[i] == line[i]); i += 1; }
            let mut p = line.len();
            if count >= 1 {
                assert!(out[p] == b'\n'); p += 1;
                let mut i = 0; while i < ln1 { assert!(out[p + i] == n1[i]); i += 1; } p += ln1;
                assert!(out[p] == b':' && out[p + 1] == b' '); p += 2;
                let mut i = 0; while i < lv1 { assert!(out[p + i] == v1[i]); i += 1; } p += lv1;
            }
            if count >= 2 {
                assert!(out[p] == b'\n' && out[p + 1] == n2[0] && out[p + 2] == n2[1] && out[p + 3] == b':' && out[p + 4] == b' ' && out[p + 5] == v2[0]);
                p += 6;
            }
            assert!(out[p] == b'\n' && out[p + 1] == b'\n' && p + 2 == w);
        },
        Err(_) => assert!(cap < need),
    }
}

// (not run: see above)
// @C99 kani.response.status_line_all_codes bounded(all status codes 100..=999, no headers, 40-byte destination) thorough
#[kani::proof]
#[kani::unwind(44)]
fn status_line_all_codes() {
    let code: u16 = kani::any();
    kani::assume(100 <= code && code <= 999);
    let status = match http::StatusCode::from_u16(code) { Ok(s) => s, Err(_) => { assert!(false); return; } };
    let mut out = [0xAAu8; 48];
    let none: [(&[u8], &[u8]); 0] = [];
    match write_headers(&mut out[..], status, none.iter().copied()) {
        Ok(w) => {
            let exp = b"Status: ";
            let mut i = 0;
            while i < 8 { assert!(out[i] == exp[i]); i += 1; }
            assert!(out[8] == b'0' + (code / 100) as u8 && out[9] == b'0' + (code / 10 % 10) as u8 && out[10] == b'0' + (code % 10) as u8 && out[11] == b' ');
            assert!(w >= 14 && out[w - 1] == b'\n' && out[w - 2] == b'\n');
            if code == 299 || code == 599 { assert!(w == 12 + 6 + 2 && out[12] == b'C' && out[17] == b'm'); }
        },
        Err(_) => assert!(false),
    }
}

// The adapter over http::Response (iterator adapters over the http crate's HeaderMap are outside Verus): one concrete
// response with a repeated header name; every entry of the map -- each value of a repeated name -- must be emitted,
// in the map's iteration order.  write_headers itself is verified in the Verus unit `response`.
// (not run: CBMC does not finish within 15 min -- HeaderMap hashing / http string tables; http_headers is NOT covered by C20's claim)
// @C99 kani.response.http_headers_every_value bounded(one concrete response: 204, set-cookie x2 + one other header; oracle = the map's own iteration) thorough
#[kani::proof]
#[kani::unwind(40)]
fn http_headers_every_value() {
    use fastcgi_server::cgi::response::http_headers;
    let mut resp = http::Response::new(());
    *resp.status_mut() = http::StatusCode::NO_CONTENT;
    resp.headers_mut().append(http::header::SET_COOKIE, http::HeaderValue::from_static("a"));
    resp.headers_mut().append(http::header::AGE, http::HeaderValue::from_static("7"));
    resp.headers_mut().append(http::header::SET_COOKIE, http::HeaderValue::from_static("c"));
    let mut out = [0xAAu8; 80];
    let cap = out.len();
    let mut w: &mut [u8] = &mut out[..];
    let n = match http_headers(&mut w, &resp) { Ok(n) => n, Err(_) => { assert!(false); return; } };
    let rest = w.len();
    assert!(n == cap - rest);
    // expected: status line, then one line per map entry
    let line = b"Status: 204 No Content";
    let mut p = 0;
    while p < line.len() { assert!(out[p] == line[p]); p += 1; }
    let mut entries = 0;
    for (name, val) in resp.headers().iter() {
        let nb: &[u8] = name.as_ref();
        let vb: &[u8] = val.as_ref();
        assert!(out[p] == b'\n'); p += 1;
        let mut i = 0; while i < nb.len() { assert!(out[p + i] == nb[i]); i += 1; } p += nb.len();
        assert!(out[p] == b':' && out[p + 1] == b' '); p += 2;
        let mut i = 0; while i < vb.len() { assert!(out[p + i] == vb[i]); i += 1; } p += vb.len();
        entries += 1;
    }
    assert!(entries == 3);
    assert!(out[p] == b'\n' && out[p + 1] == b'\n' && p + 2 == n);
}

// ---- http_headers (the adapter over http::Response): write_headers is verified by Verus (unit `response`); here it is
// replaced by a recording stub, so that what the harness decides is exactly the adapter's job: every entry of the
// header map -- each value of a repeated name -- is handed to write_headers, in the map's iteration order, together
// with the response's status.
fn write_headers_recorder<'a, W, I>(mut w: W, status: http::StatusCode, headers: I) -> std::io::Result<usize>
where
    W: std::io::Write,
    I: IntoIterator<Item = (&'a [u8], &'a [u8])>,
{
    let mut n = 0;
    let code = status.as_u16();
    w.write_all(&[(code >> 8) as u8, code as u8])?;
    n += 2;
    for (name, val) in headers {
        w.write_all(&[name.len() as u8])?;
        w.write_all(name)?;
        w.write_all(&[val.len() as u8])?;
        w.write_all(val)?;
        n += 2 + name.len() + val.len();
    }
    Ok(n)
}

// (not run: even with write_headers stubbed CBMC does not finish in 15 min -- the cost is http::HeaderMap itself)
// @C99 kani.response.http_headers_hands_over_every_entry bounded(one concrete response: 204, set-cookie twice and one other header; write_headers stubbed by a recorder; oracle = the map's own iteration)
#[kani::proof]
#[kani::stub(fastcgi_server::cgi::response::write_headers, write_headers_recorder)]
#[kani::unwind(12)]
fn http_headers_hands_over_every_entry() {
    use fastcgi_server::cgi::response::http_headers;
    let mut resp = http::Response::new(());
    *resp.status_mut() = http::StatusCode::NO_CONTENT;
    resp.headers_mut().append(http::header::SET_COOKIE, http::HeaderValue::from_static("a"));
    resp.headers_mut().append(http::header::AGE, http::HeaderValue::from_static("7"));
    resp.headers_mut().append(http::header::SET_COOKIE, http::HeaderValue::from_static("c"));
    let mut out = [0xAAu8; 64];
    let mut w: &mut [u8] = &mut out[..];
    let n = match http_headers(&mut w, &resp) { Ok(n) => n, Err(_) => { assert!(false); return; } };
    assert!(out[0] == 0 && out[1] == 204);
    let mut p = 2;
    let mut entries = 0;
    for (name, val) in resp.headers().iter() {
        let nb: &[u8] = name.as_ref();
        let vb: &[u8] = val.as_ref();
        assert!(out[p] == nb.len() as u8); p += 1;
        let mut i = 0; while i < nb.len() { assert!(out[p + i] == nb[i]); i += 1; } p += nb.len();
        assert!(out[p] == vb.len() as u8); p += 1;
        let mut i = 0; while i < vb.len() { assert!(out[p + i] == vb[i]); i += 1; } p += vb.len();
        entries += 1;
    }
    assert!(entries == 3 && p == n);
}
